package main

// Oracles for the parts of the exported API that the generators of the other families do not
// reach on their own (found by measuring which statements of the package the quick tier executes:
// named scalar types of every width take the reflect.Kind path of MarshalValue, Text(Un)marshaler
// hooks, sb.Ref / sb.Token / sb.Sink / sb.Tuple / sb.TypedTuple as Go values and as unmarshal
// targets, TupleTypes, the Must* wrappers, DecodeBufferForCompare).

import (
	"bytes"
	"encoding/json"
	"errors"
	"fmt"
	"io"
	"math"
	"math/rand"
	mrand "math/rand"
	mrand2 "math/rand/v2"
	"reflect"
	"runtime"
	"strconv"
	"strings"
	"sync"
	"time"

	"github.com/reusee/sb"
)

// ---- named scalar types of every width (in the model: TNamed over the scalar) ----
type MyInt16 int16
type MyInt32 int32
type MyInt64 int64
type MyUint uint
type MyUint8 uint8
type MyUint32 uint32
type MyUint64 uint64
type MyUintptr uintptr
type MyFloat32 float32

var namedScalarTypes = []reflect.Type{
	reflect.TypeOf(MyInt(0)), reflect.TypeOf(MyInt8(0)), reflect.TypeOf(MyInt16(0)), reflect.TypeOf(MyInt32(0)), reflect.TypeOf(MyInt64(0)),
	reflect.TypeOf(MyUint(0)), reflect.TypeOf(MyUint8(0)), reflect.TypeOf(MyUint16(0)), reflect.TypeOf(MyUint32(0)), reflect.TypeOf(MyUint64(0)),
	reflect.TypeOf(MyUintptr(0)), reflect.TypeOf(MyFloat32(0)), reflect.TypeOf(MyFloat(0)), reflect.TypeOf(MyBool(false)), reflect.TypeOf(MyString("")),
}

func init() {
	catalogueTypes = append(catalogueTypes,
		reflect.TypeOf(MyInt16(0)), reflect.TypeOf(MyInt32(0)), reflect.TypeOf(MyInt64(0)), reflect.TypeOf(MyUint(0)), reflect.TypeOf(MyUint8(0)),
		reflect.TypeOf(MyUint32(0)), reflect.TypeOf(MyUint64(0)), reflect.TypeOf(MyUintptr(0)), reflect.TypeOf(MyFloat32(0)))
}

// boundary values of a scalar type
func scalarBoundaries(t reflect.Type) []reflect.Value {
	var out []reflect.Value
	add := func(f func(v reflect.Value)) {
		v := reflect.New(t).Elem()
		f(v)
		out = append(out, v)
	}
	switch t.Kind() {
	case reflect.Bool:
		add(func(v reflect.Value) { v.SetBool(false) })
		add(func(v reflect.Value) { v.SetBool(true) })
	case reflect.Int, reflect.Int8, reflect.Int16, reflect.Int32, reflect.Int64:
		bits := t.Bits()
		for _, x := range []int64{0, 1, -1, 42, math.MinInt64 >> (64 - bits), math.MaxInt64 >> (64 - bits)} {
			x := x
			add(func(v reflect.Value) { v.SetInt(x) })
		}
	case reflect.Uint, reflect.Uint8, reflect.Uint16, reflect.Uint32, reflect.Uint64, reflect.Uintptr:
		bits := t.Bits()
		for _, x := range []uint64{0, 1, 200, math.MaxUint64 >> (64 - bits), (math.MaxUint64 >> (64 - bits)) / 2} {
			x := x
			add(func(v reflect.Value) { v.SetUint(x) })
		}
	case reflect.Float32, reflect.Float64:
		for _, x := range []float64{0, math.Copysign(0, -1), 1.5, -2.25, math.Inf(1), math.Inf(-1), math.NaN(), math.MaxFloat32, math.SmallestNonzeroFloat32} {
			x := x
			add(func(v reflect.Value) { v.SetFloat(x) })
		}
	case reflect.String:
		for _, x := range []string{"", "a", "named \xff string"} {
			x := x
			add(func(v reflect.Value) { v.SetString(x) })
		}
	}
	return out
}

// every named scalar type x boundary values: marshal and unmarshal cases for the model, round trip,
// and the same value behind a pointer, in an interface, as a slice element and as a map key
func apiNamedScalars(repM, repU *Report, wM, wU *CaseWriter) {
	reg := coqRegistry()
	for _, t := range namedScalarTypes {
		for _, v := range scalarBoundaries(t) {
			desc := fmt.Sprintf("named scalar: type=%v value=%v", t, v.Interface())
			ts, err := marshalTokens(v.Interface(), nil)
			repM.Evaluations++
			repM.count("api:named-scalar")
			if err != nil {
				repM.violate("C01", "marshal-error", fmt.Sprintf("Marshal failed on a supported value: %v", err), desc)
				continue
			}
			tyS, valS := coqTy(t), coqGval(v)
			wM.add(fmt.Sprintf("MarshalCase %s %s %s %s", coqOpts(false, false, false), tyS, valS, mobs(ts, err)), desc, true)
			// the same scalar at its unnamed type marshals to the same token
			u := reflect.New(underlyingScalar(t)).Elem()
			u.Set(v.Convert(u.Type()))
			tu, eu := marshalTokens(u.Interface(), nil)
			if eu != nil || !tokensExactEq(ts, tu) {
				repM.violate("C08", "named-scalar-differs", fmt.Sprintf("%v marshals to [%s], its underlying type to [%s]", t, descTokens(ts), descTokens(tu)), desc)
				repM.violate("C01", "named-scalar-differs", fmt.Sprintf("%v marshals to [%s], its underlying type to [%s]", t, descTokens(ts), descTokens(tu)), desc)
			}
			back, eU := unmarshalInto(t, ts, nil)
			repU.Evaluations++
			if eU != nil || !equivValues(v, back) {
				repU.violate("C01", "roundtrip-error", fmt.Sprintf("round trip of %v fails: %v (got %v)", t, eU, safeFormat(back)), desc)
			}
			wU.add(fmt.Sprintf("UnmarshalCase %s %s %s %s %s %s %s", coqOpts(false, false, false), reg, tyS, "(zero "+tyS+")", coqTokens(ts), floatTable(ts), uobs(back, eU)), "roundtrip: "+desc, true)
			// containers holding it
			holders := []reflect.Value{}
			p := reflect.New(t)
			p.Elem().Set(v)
			holders = append(holders, p)
			sl := reflect.MakeSlice(reflect.SliceOf(t), 0, 2)
			sl = reflect.Append(sl, v, v)
			holders = append(holders, sl)
			if v.Kind() != reflect.Float32 && v.Kind() != reflect.Float64 {
				m := reflect.MakeMap(reflect.MapOf(t, t))
				m.SetMapIndex(v, v)
				holders = append(holders, m)
			}
			st := reflect.New(reflect.StructOf([]reflect.StructField{{Name: "A", Type: t}, {Name: "B", Type: reflect.PtrTo(t)}})).Elem()
			st.Field(0).Set(v)
			st.Field(1).Set(p)
			holders = append(holders, st)
			for _, h := range holders {
				hts, he := marshalTokens(h.Interface(), nil)
				repM.Evaluations++
				hdesc := fmt.Sprintf("%s held in %v", desc, h.Type())
				if he != nil {
					repM.violate("C01", "marshal-error", fmt.Sprintf("%v", he), hdesc)
					continue
				}
				wM.add(fmt.Sprintf("MarshalCase %s %s %s %s", coqOpts(false, false, false), coqTy(h.Type()), coqGval(h), mobs(hts, he)), hdesc, true)
				hb, hbe := unmarshalInto(h.Type(), hts, nil)
				repU.Evaluations++
				if hbe != nil || !equivValues(h, hb) {
					repU.violate("C01", "roundtrip-error", fmt.Sprintf("round trip fails: %v", hbe), hdesc)
				}
			}
		}
	}
}

func underlyingScalar(t reflect.Type) reflect.Type {
	for _, s := range scalarTypes {
		if s.Kind() == t.Kind() {
			return s
		}
	}
	return t
}

// ---- a type bridged through Text marshalling ----
type TextLabel struct {
	S string
	N int
}

func (l TextLabel) MarshalText() ([]byte, error) {
	return []byte(fmt.Sprintf("label:%d:%s", l.N, l.S)), nil
}
func (l *TextLabel) UnmarshalText(bs []byte) error {
	s := string(bs)
	if !strings.HasPrefix(s, "label:") {
		return fmt.Errorf("verif: not a label")
	}
	s = s[len("label:"):]
	i := strings.IndexByte(s, ':')
	if i < 0 {
		return fmt.Errorf("verif: not a label")
	}
	if _, err := fmt.Sscanf(s[:i], "%d", &l.N); err != nil {
		return err
	}
	l.S = s[i+1:]
	return nil
}

// a named string type with Text hooks (a scalar-kinded hook type, usable as a map key)
type TextKey string

func (k TextKey) MarshalText() ([]byte, error) { return []byte("k:" + string(k)), nil }
func (k *TextKey) UnmarshalText(bs []byte) error {
	if !bytes.HasPrefix(bs, []byte("k:")) {
		return fmt.Errorf("verif: not a key")
	}
	*k = TextKey(bs[2:])
	return nil
}

func apiTextHooks(repM, repU *Report) {
	type holder struct {
		L  TextLabel
		P  *TextLabel
		PN *TextLabel
		S  []TextLabel
		M  map[string]TextLabel
		K  map[TextKey]int
		A  [2]TextLabel
		PP **TextLabel
	}
	p := &TextLabel{"ptr", 2}
	v := holder{L: TextLabel{"x y", 1}, P: p, S: []TextLabel{{"", 0}, {"s\xff", -3}}, M: map[string]TextLabel{"m": {"mv", 4}},
		K: map[TextKey]int{"b": 2, "a": 1, "": 0}, A: [2]TextLabel{{"a0", 5}, {"a1", 6}}, PP: &p}
	ts, err := marshalTokens(v, nil)
	repM.Evaluations++
	repM.count("api:text-hooks")
	desc := "a type bridged through MarshalText/UnmarshalText at every position"
	if err != nil {
		repM.violate("C01", "marshal-error", fmt.Sprintf("%v", err), desc)
		return
	}
	// the bridged value is ONE string token carrying the text
	direct, _ := marshalTokens(TextLabel{"x y", 1}, nil)
	if len(direct) != 1 || direct[0].Kind != sb.KindString || direct[0].Value != "label:1:x y" {
		repM.violate("C08", "text-bridge", fmt.Sprintf("a TextMarshaler value marshals to [%s], expected one string token with its text", descTokens(direct)), desc)
		repM.violate("C01", "text-bridge", fmt.Sprintf("a TextMarshaler value marshals to [%s], expected one string token with its text", descTokens(direct)), desc)
	}
	var back holder
	e := guard(func() error { return copyBudget(tokensFrom(ts), sb.Unmarshal(&back)) })
	repU.Evaluations++
	if e != nil || !reflect.DeepEqual(v, back) {
		repU.violate("C01", "roundtrip-error", fmt.Sprintf("a type with Text hooks does not round-trip: %v, got %+v from [%s]", e, back, truncate(descTokens(ts), 500)), desc)
	}
	// through the byte codec
	enc := runEncode(ts, 0, 0)
	if enc.err == nil {
		var back2 holder
		e2 := guard(func() error { return sb.Copy(sb.Decode(bytes.NewReader(enc.bytes)), sb.Unmarshal(&back2)) })
		if e2 != nil || !reflect.DeepEqual(v, back2) {
			repU.violate("C01", "roundtrip-bytes", fmt.Sprintf("a type with Text hooks does not round-trip through bytes: %v", e2), desc)
		}
	}
	// rejections (C05): a wrong kind is a type mismatch against string, a text the hook refuses is an error, the end of the stream is an error
	rej := []struct {
		ts   []sb.Token
		want string
	}{
		{[]sb.Token{tokI(1)}, fmt.Sprintf("(EMismatch %d %d)", sb.KindInt, reflect.String)},
		{[]sb.Token{tokK(sb.KindArray), tokK(sb.KindArrayEnd)}, fmt.Sprintf("(EMismatch %d %d)", sb.KindArray, reflect.String)},
		{[]sb.Token{tokS("not a label")}, "EOther"},
		{[]sb.Token{}, "EMISMATCH-EOF"},
	}
	for _, c := range rej {
		var l TextLabel
		e := guard(func() error { return copyBudget(tokensFrom(c.ts), sb.Unmarshal(&l)) })
		repU.Evaluations++
		got := classOf(e)
		if c.want == "EMISMATCH-EOF" {
			if e == nil || got == "EPanic" {
				repU.violate("C05", "text-hook-accepts", fmt.Sprintf("an empty stream into a TextUnmarshaler target: %s", got), desc)
			}
			continue
		}
		if got != c.want {
			repU.violate("C05", "text-hook-rejection", fmt.Sprintf("[%s] into a TextUnmarshaler target: got %s, expected %s", descTokens(c.ts), got, c.want), desc)
		}
		if e != nil && !isUnmarshalError(e) {
			repU.violate("C05", "text-hook-rejection", fmt.Sprintf("[%s] into a TextUnmarshaler target: the error is not an UnmarshalError: %v", descTokens(c.ts), e), desc)
		}
	}
}

// ---- sb.Ref, sb.Token as Go values and as targets ----
func apiRefAndToken(repM, repU *Report, r *rand.Rand) {
	type holder struct {
		R  sb.Ref
		PR *sb.Ref
		L  []sb.Ref
		T  sb.Token
		N  int
	}
	for i := 0; i < 12; i++ {
		h := payload(r, []int{0, 1, 16, 20, 32, 200}[i%6])
		tok := randScalarToken(r)
		v := holder{R: sb.Ref(h), L: []sb.Ref{sb.Ref(h), sb.Ref("x")}, T: tok, N: i}
		if i%2 == 0 {
			rr := sb.Ref(h)
			v.PR = &rr
		}
		desc := fmt.Sprintf("sb.Ref / sb.Token as values: ref=%x token=%s", h, descToken(tok))
		ts, err := marshalTokens(v, nil)
		repM.Evaluations++
		repM.count("api:ref-token-values")
		if err != nil {
			repM.violate("C01", "marshal-error", fmt.Sprintf("%v", err), desc)
			continue
		}
		// expected stream, written out
		want := []sb.Token{tokK(sb.KindObject), tokS("R"), {Kind: sb.KindRef, Value: []byte(h)}, tokS("PR")}
		if v.PR != nil {
			want = append(want, sb.Token{Kind: sb.KindRef, Value: []byte(h)})
		} else {
			want = append(want, tokK(sb.KindNil))
		}
		want = append(want, tokS("L"), tokK(sb.KindArray), sb.Token{Kind: sb.KindRef, Value: []byte(h)}, sb.Token{Kind: sb.KindRef, Value: []byte("x")}, tokK(sb.KindArrayEnd),
			tokS("T"), tok, tokS("N"), tokI(i), tokK(sb.KindObjectEnd))
		if !tokensExactEq(ts, want) {
			repM.violate("C08", "hook-value-stream", fmt.Sprintf("got [%s], expected [%s]", descTokens(ts), descTokens(want)), desc)
			repM.violate("C01", "hook-value-stream", fmt.Sprintf("got [%s], expected [%s]", descTokens(ts), descTokens(want)), desc)
		}
		var back holder
		e := guard(func() error { return copyBudget(tokensFrom(ts), sb.Unmarshal(&back)) })
		repU.Evaluations++
		ok := e == nil && bytes.Equal(back.R, v.R) && len(back.L) == 2 && bytes.Equal(back.L[0], v.L[0]) && bytes.Equal(back.L[1], v.L[1]) &&
			tokenExactEq(back.T, v.T) && back.N == v.N && (back.PR == nil) == (v.PR == nil) && (v.PR == nil || bytes.Equal(*back.PR, *v.PR))
		if !ok {
			repU.violate("C01", "roundtrip-error", fmt.Sprintf("sb.Ref / sb.Token values do not round-trip: %v, got %+v", e, back), desc)
		}
	}
	// a *Ref target accepts exactly a Ref token
	for _, tk := range []sb.Token{tokI(1), tokS("x"), {Kind: sb.KindBytes, Value: []byte("ab")}, tokK(sb.KindNil), tokK(sb.KindArray)} {
		var ref sb.Ref
		e := guard(func() error { return copyBudget(tokensFrom([]sb.Token{tk, tokK(sb.KindArrayEnd)}), sb.Unmarshal(&ref)) })
		repU.Evaluations++
		want := fmt.Sprintf("(EMismatch %d %d)", tk.Kind, reflect.Slice)
		if classOf(e) != want {
			repU.violate("C05", "ref-target-rejection", fmt.Sprintf("[%s] into *sb.Ref: got %s (%v), expected %s", descToken(tk), classOf(e), e, want), "*sb.Ref target")
		}
	}
	{
		var ref sb.Ref
		e := guard(func() error { return copyBudget(tokensFrom(nil), sb.Unmarshal(&ref)) })
		if e == nil || classOf(e) != "EEnd" {
			repU.violate("C05", "ref-target-rejection", fmt.Sprintf("an empty stream into *sb.Ref: %s", classOf(e)), "*sb.Ref target")
		}
	}
}

func randScalarToken(r *rand.Rand) sb.Token {
	for {
		t := randToken(r)
		switch t.Kind {
		case sb.KindArray, sb.KindArrayEnd, sb.KindObject, sb.KindObjectEnd, sb.KindMap, sb.KindMapEnd, sb.KindTuple, sb.KindTupleEnd, sb.KindTypeName, sb.KindInvalid, sb.KindLiteral: // a literal is converted according to the target before any hook sees it
			continue
		}
		return t
	}
}

// ---- sb.Tuple, sb.TypedTuple, TupleTypes, sinks as tuple members ----
func simpleAny(r *rand.Rand, depth int) any {
	switch r.Intn(11) {
	case 0:
		return nil
	case 1:
		return r.Intn(2) == 0
	case 2:
		return int(randI64(r))
	case 3:
		return string(payload(r, r.Intn(6)))
	case 4:
		return float64(r.Intn(1000)) / 8
	case 5:
		return payload(r, 1+r.Intn(5))
	case 6:
		if depth > 0 {
			n := r.Intn(3)
			l := make([]any, 0, n)
			for i := 0; i < n; i++ {
				l = append(l, simpleAny(r, depth-1))
			}
			return l
		}
		return uint8(r.Intn(256))
	case 7:
		if depth > 0 {
			m := map[any]any{}
			for i := 0; i < r.Intn(3); i++ {
				m[fmt.Sprintf("k%d", i)] = simpleAny(r, depth-1)
			}
			return m
		}
		return int64(randI64(r))
	case 8:
		return uint32(r.Uint32())
	case 9:
		return int8(r.Intn(256) - 128)
	default:
		return uint64(randU64(r))
	}
}

// ---- Gallina printers for tuple items and the TupleCase of Corr_tuples ----
var tuplesW *CaseWriter // set by famTyped

func coqDyn(x any) string {
	if x == nil {
		return "None"
	}
	v := reflect.ValueOf(x)
	return "(Some (" + coqTy(v.Type()) + ", " + coqGval(v) + "))"
}

func coqDyns(xs []any) string {
	var out []string
	for _, x := range xs {
		out = append(out, coqDyn(x))
	}
	return "[" + strings.Join(out, "; ") + "]"
}

// run one tuple target (plain when types == nil) and hand the case to the model
func tupleCase(rep *Report, types []reflect.Type, pre []any, ts []sb.Token, desc string) {
	if tuplesW == nil {
		return
	}
	preS := coqDyns(pre)
	var got sb.Tuple
	var err error
	if types == nil {
		tgt := append(sb.Tuple{}, pre...)
		err = guard(func() error { return copyBudget(tokensFrom(ts), sb.Unmarshal(&tgt)) })
		got = tgt
	} else {
		tt := sb.TypedTuple{Types: types, Values: append(sb.Tuple{}, pre...)}
		err = guard(func() error { return copyBudget(tokensFrom(ts), sb.Unmarshal(&tt)) })
		got = tt.Values
	}
	rep.Evaluations++
	rep.count("api:tuple-case:" + classOf(err))
	if classOf(err) == "EPanic" {
		rep.violate("C05", "unmarshal-panic", fmt.Sprintf("%v", err), desc)
		return
	}
	obs := "(TErr " + classOf(err) + ")"
	if err == nil {
		obs = "(TOk " + coqDyns(got) + ")"
	}
	tys := "None"
	if types != nil {
		var xs []string
		for _, t := range types {
			xs = append(xs, coqTy(t))
		}
		tys = "(Some [" + strings.Join(xs, "; ") + "])"
	}
	term := fmt.Sprintf("TupleCase %s %s %s %s %s %s", coqRegistry(), tys, preS, coqTokens(ts), floatTable(ts), obs)
	if len(term) < 30000 {
		tuplesW.add(term, "tuple target: "+desc, len(ts) >= 3)
	}
}

func apiTuples(repM, repU *Report, r *rand.Rand, n int) {
	for i := 0; i < n; i++ {
		k := r.Intn(5)
		if i%17 == 0 {
			k = 50 + r.Intn(5) // sb.Tuple has no item limit (the 50-item limit belongs to func targets)
		}
		tup := make(sb.Tuple, 0, k)
		var want []sb.Token
		want = append(want, tokK(sb.KindTuple))
		var parts [][]sb.Token
		for j := 0; j < k; j++ {
			x := simpleAny(r, 2)
			tup = append(tup, x)
			xs, e := marshalTokens(x, nil)
			if e != nil {
				xs = nil
			}
			parts = append(parts, xs)
			want = append(want, xs...)
		}
		want = append(want, tokK(sb.KindTupleEnd))
		desc := fmt.Sprintf("sb.Tuple of %d items: [%s]", k, truncate(descTokens(want), 300))
		ts, err := marshalTokens(tup, nil)
		repM.Evaluations++
		repM.count("api:tuple")
		if err != nil || !tokensExactEq(ts, want) {
			repM.violate("C08", "tuple-stream", fmt.Sprintf("Marshal(sb.Tuple) = [%s] (%v), expected the items' streams between Tuple and TupleEnd", truncate(descTokens(ts), 300), err), desc)
			repM.violate("C01", "tuple-stream", fmt.Sprintf("Marshal(sb.Tuple) = [%s] (%v), expected the items' streams between Tuple and TupleEnd", truncate(descTokens(ts), 300), err), desc)
			continue
		}
		// (1) into an empty *sb.Tuple: schema-less items, re-marshalling gives the same stream
		var back sb.Tuple
		e := guard(func() error { return copyBudget(tokensFrom(ts), sb.Unmarshal(&back)) })
		repU.Evaluations++
		if e != nil || len(back) != k {
			repU.violate("C01", "roundtrip-error", fmt.Sprintf("sb.Tuple does not round-trip: %v, %d items back", e, len(back)), desc)
			repU.violate("C11", "any-not-lossless", fmt.Sprintf("sb.Tuple does not round-trip: %v, %d items back", e, len(back)), desc)
		} else {
			ts2, e2 := marshalTokens(back, nil)
			if e2 != nil || !tokensExactEq(ts, ts2) {
				repU.violate("C01", "roundtrip-not-equivalent", fmt.Sprintf("sb.Tuple re-marshals to [%s]", truncate(descTokens(ts2), 300)), desc)
				repU.violate("C11", "any-not-lossless", fmt.Sprintf("sb.Tuple re-marshals to [%s]", truncate(descTokens(ts2), 300)), desc)
			}
		}
		// (1b) into a schema-less target: the same stream again (nil members included)
		if k <= 50 {
			var x any
			e = guard(func() error { return copyBudget(tokensFrom(ts), sb.Unmarshal(&x)) })
			repU.Evaluations++
			re, e2 := marshalTokens(x, nil)
			if e != nil || e2 != nil || !tokensExactEq(re, ts) {
				repU.violate("C11", "any-not-lossless", fmt.Sprintf("a tuple stream into any and back: %v %v [%s]", e, e2, truncate(descTokens(re), 300)), desc)
				repU.violate("C13", "combinator-not-transparent", fmt.Sprintf("a tuple stream into any and back: %v %v [%s]", e, e2, truncate(descTokens(re), 300)), desc)
			}
		}
		// (2) typed: TypedTuple with the items' own types gives the items back
		types := make([]reflect.Type, k)
		typed := true
		for j, x := range tup {
			if x == nil {
				types[j] = anyType
			} else {
				types[j] = reflect.TypeOf(x)
			}
			if types[j].Kind() == reflect.Map || (types[j].Kind() == reflect.Slice && types[j] != bytesTy) {
				types[j] = anyType
			}
		}
		tt := sb.TypedTuple{Types: types}
		e = guard(func() error { return copyBudget(tokensFrom(ts), sb.Unmarshal(&tt)) })
		repU.Evaluations++
		if e != nil || len(tt.Values) != k {
			repU.violate("C01", "roundtrip-error", fmt.Sprintf("sb.TypedTuple with the items' types does not accept the tuple's stream: %v (%d values)", e, len(tt.Values)), desc)
			typed = false
		}
		if typed {
			for j := range tup {
				a, _ := marshalTokens(tup[j], nil)
				b, eb := marshalTokens(tt.Values[j], nil)
				if eb != nil || !tokensExactEq(a, b) || (types[j] != anyType && reflect.TypeOf(tt.Values[j]) != types[j]) {
					repU.violate("C01", "roundtrip-not-equivalent", fmt.Sprintf("item %d of the typed tuple is %T %v, expected %T %v", j, tt.Values[j], tt.Values[j], tup[j], tup[j]), desc)
					break
				}
			}
		}
		// the same runs, and a few broken ones, for the model (Model/Tuples.v)
		if k < 12 {
			tupleCase(repU, nil, nil, ts, desc)
			tupleCase(repU, types, nil, ts, desc)
			if k > 0 {
				tupleCase(repU, types[:k-1], nil, ts, desc+" (one type fewer)")
				tupleCase(repU, nil, nil, ts[:1+r.Intn(len(ts)-1)], desc+" (cut)")
				// a pre-filled target: typed zero values in some positions, nil in others, one position more than the stream has
				pre := make([]any, k+1)
				for j := 0; j < k; j++ {
					if tup[j] != nil && types[j] != anyType && r.Intn(3) != 0 {
						pre[j] = reflect.Zero(types[j]).Interface()
					}
				}
				pre[k] = "kept"
				tupleCase(repU, nil, pre, ts, desc+" (pre-filled target)")
				tupleCase(repU, types, pre[:k], ts, desc+" (pre-filled typed target)")
				// a position pre-filled with a value of ANOTHER type than the item
				pre2 := make([]any, k)
				pre2[r.Intn(k)] = []string{"x"}
				tupleCase(repU, nil, pre2, ts, desc+" (pre-filled with another type)")
				mut := append([]sb.Token{}, ts...)
				mut[1+r.Intn(len(mut)-1)] = []sb.Token{tokK(sb.KindArrayEnd), tokK(sb.KindNil), {Kind: sb.KindLiteral, Value: "12"}, tokK(sb.KindTupleEnd), tokK(sb.KindMin)}[r.Intn(5)]
				tupleCase(repU, types, nil, mut, desc+" (one token replaced)")
				tupleCase(repU, nil, nil, mut, desc+" (one token replaced)")
			}
			tupleCase(repU, append(append([]reflect.Type{}, types...), reflect.TypeOf(0)), nil, ts, desc+" (one type more)")
		}
		// (3) too few / too many types
		if k > 0 {
			few := sb.TypedTuple{Types: types[:k-1]}
			e = guard(func() error { return copyBudget(tokensFrom(ts), sb.Unmarshal(&few)) })
			if classOf(e) != "ETooMany" {
				repU.violate("C05", "typed-tuple-arity", fmt.Sprintf("%d items into %d types: %s (%v), expected TooManyElement", k, k-1, classOf(e), e), desc)
			}
		}
		more := sb.TypedTuple{Types: append(append([]reflect.Type{}, types...), reflect.TypeOf(0))}
		e = guard(func() error { return copyBudget(tokensFrom(ts), sb.Unmarshal(&more)) })
		repU.Evaluations += 2
		if classOf(e) != "ETooFew" {
			repU.violate("C05", "typed-tuple-arity", fmt.Sprintf("%d items into %d types: %s (%v), expected TooFewElement", k, k+1, classOf(e), e), desc)
		}
		// (4) pre-filled targets: each present item fixes the type its position is decoded into; sinks collect their item's tokens
		if k >= 2 && k < 10 {
			pre := make(sb.Tuple, k)
			var got0, got1 sb.Tokens
			pre[0] = sb.CollectValueTokens(&got0)
			pre[k-1] = sb.CollectValueTokens(&got1)
			for j := 1; j < k-1; j++ {
				if tup[j] != nil && types[j] != anyType {
					pre[j] = reflect.Zero(types[j]).Interface()
				}
			}
			e = guard(func() error { return copyBudget(tokensFrom(ts), sb.Unmarshal(&pre)) })
			repU.Evaluations++
			if e != nil || !tokensExactEq(got0, parts[0]) || !tokensExactEq(got1, parts[k-1]) {
				repU.violate("C01", "tuple-sink-member", fmt.Sprintf("sinks placed in a tuple target received [%s] and [%s] (%v), expected the first and last item's tokens", descTokens(got0), descTokens(got1), e), desc)
				repU.violate("C14", "tuple-sink-member", fmt.Sprintf("sinks placed in a tuple target received [%s] and [%s] (%v), expected the first and last item's tokens", descTokens(got0), descTokens(got1), e), desc)
			} else {
				for j := 1; j < k-1; j++ {
					a, _ := marshalTokens(tup[j], nil)
					b, eb := marshalTokens(pre[j], nil)
					if eb != nil || !tokensExactEq(a, b) || (tup[j] != nil && types[j] != anyType && reflect.TypeOf(pre[j]) != types[j]) {
						repU.violate("C01", "roundtrip-not-equivalent", fmt.Sprintf("item %d of the pre-filled tuple is %T %v, expected %T %v", j, pre[j], pre[j], tup[j], tup[j]), desc)
						break
					}
				}
			}
		}
	}
	// TupleTypes: parameter types of a func, field types of a struct
	t1 := sb.TupleTypes(func(int, string, []byte, map[string]int) {})
	t2 := sb.TupleTypes(struct {
		A int
		B string
		C []byte
		D map[string]int
	}{})
	wantT := []reflect.Type{reflect.TypeOf(0), reflect.TypeOf(""), bytesTy, reflect.TypeOf(map[string]int(nil))}
	if !reflect.DeepEqual(t1, wantT) || !reflect.DeepEqual(t2, wantT) {
		repU.violate("C01", "tuple-types", fmt.Sprintf("TupleTypes gives %v and %v, expected %v", t1, t2, wantT), "sb.TupleTypes")
	}
	// rejections of a *Tuple / *TypedTuple target
	for _, tk := range []sb.Token{tokI(1), tokK(sb.KindArray), tokK(sb.KindNil), tokS("x"), {Kind: sb.KindLiteral, Value: "1"}, tokK(sb.KindTupleEnd), {Kind: sb.KindTypeName, Value: "main.RegInt"}} {
		tupleCase(repU, nil, nil, []sb.Token{tk, tokK(sb.KindArrayEnd)}, "head token "+descToken(tk))
		tupleCase(repU, []reflect.Type{reflect.TypeOf(0)}, nil, []sb.Token{tk, tokK(sb.KindArrayEnd)}, "head token "+descToken(tk))
	}
	tupleCase(repU, nil, nil, []sb.Token{tokK(sb.KindTuple)}, "unclosed")
	tupleCase(repU, []reflect.Type{reflect.TypeOf(0), reflect.TypeOf("")}, nil, []sb.Token{tokK(sb.KindTuple), tokI(1)}, "unclosed")
	for _, tk := range []sb.Token{tokI(1), tokK(sb.KindArray), tokK(sb.KindNil), tokS("x")} {
		var t sb.Tuple
		e := guard(func() error { return copyBudget(tokensFrom([]sb.Token{tk, tokK(sb.KindArrayEnd)}), sb.Unmarshal(&t)) })
		want := fmt.Sprintf("(EMismatch %d %d)", tk.Kind, reflect.Func)
		tt := sb.TypedTuple{Types: []reflect.Type{reflect.TypeOf(0)}}
		e2 := guard(func() error { return copyBudget(tokensFrom([]sb.Token{tk, tokK(sb.KindArrayEnd)}), sb.Unmarshal(&tt)) })
		repU.Evaluations += 2
		if classOf(e) != want || classOf(e2) != want {
			repU.violate("C05", "tuple-target-rejection", fmt.Sprintf("[%s] into *sb.Tuple: %s, into *sb.TypedTuple: %s, expected %s", descToken(tk), classOf(e), classOf(e2), want), "*sb.Tuple target")
		}
	}
	for _, ts := range [][]sb.Token{{}, {tokK(sb.KindTuple)}, {tokK(sb.KindTuple), tokI(1)}, {tokK(sb.KindTuple), tokK(sb.KindArray), tokI(1)}} {
		var t sb.Tuple
		e := guard(func() error { return copyBudget(tokensFrom(ts), sb.Unmarshal(&t)) })
		tt := sb.TypedTuple{Types: []reflect.Type{reflect.TypeOf(0), reflect.TypeOf(0)}}
		e2 := guard(func() error { return copyBudget(tokensFrom(ts), sb.Unmarshal(&tt)) })
		repU.Evaluations += 2
		if classOf(e) != "EEnd" || (classOf(e2) != "EEnd" && len(ts) < 3) || e2 == nil {
			repU.violate("C05", "truncated-accepted", fmt.Sprintf("the truncated stream [%s] into *sb.Tuple: %s, into *sb.TypedTuple: %s", descTokens(ts), classOf(e), classOf(e2)), "*sb.Tuple target")
		}
	}
}

// ---- Must* wrappers and the buffer variants agree with the functions they wrap ----
func mustAgree(f func()) (panicked bool) {
	defer func() {
		if recover() != nil {
			panicked = true
		}
	}()
	f()
	return false
}

func apiMustCompare(rep *Report, a, b []sb.Token, ea, eb []byte) {
	rep.count("api:must-wrappers")
	res, err := cmpTokensImpl(a, b)
	var got int
	p := mustAgree(func() { got = sb.MustCompare(tokensFrom(a), tokensFrom(b)) })
	if (err != nil) != p || (err == nil && got != res) {
		rep.violate("C07", "must-wrapper-differs", fmt.Sprintf("MustCompare: %d panicked=%v, Compare: %d %v", got, p, res, err), fmt.Sprintf("a=[%s] b=[%s]", truncate(descTokens(a), 200), truncate(descTokens(b), 200)))
		rep.violate("C06", "must-wrapper-differs", fmt.Sprintf("MustCompare: %d panicked=%v, Compare: %d %v", got, p, res, err), fmt.Sprintf("a=[%s] b=[%s]", truncate(descTokens(a), 200), truncate(descTokens(b), 200)))
	}
	if ea != nil && eb != nil {
		res2, err2 := cmpBytesImpl(ea, eb)
		p2 := mustAgree(func() { got = sb.MustCompareBytes(ea, eb) })
		if (err2 != nil) != p2 || (err2 == nil && got != res2) {
			rep.violate("C07", "must-wrapper-differs", fmt.Sprintf("MustCompareBytes: %d panicked=%v, CompareBytes: %d %v", got, p2, res2, err2), fmt.Sprintf("a=%x b=%x", ea, eb))
		}
	}
	rep.Evaluations += 2
}

// DecodeBufferForCompare with every scratch buffer yields the tokens of DecodeForCompare
func apiDecodeBufferForCompare(rep *Report, data []byte, desc string) {
	ref, refErr := collect(sb.DecodeForCompare(bytes.NewReader(data)))
	for _, buf := range scratchBuffers() {
		if len(buf) < 8 {
			continue
		}
		rd := bytes.NewReader(data)
		var got []sb.Token
		var err error
		e := guard(func() error {
			p := sb.DecodeBufferForCompare(rd, rd, buf, nil)
			got, err = collect(&p)
			return nil
		})
		rep.Evaluations++
		rep.count("api:decode-buffer-for-compare")
		if e != nil || classOf(err) != classOf(refErr) || !tokensExactEq(got, ref) {
			rep.violate("C07", "scratch-buffer-dependent", fmt.Sprintf("DecodeBufferForCompare with a caller buffer of %d bytes gives %d tokens (%v / %v), DecodeForCompare %d tokens (%v)", len(buf), len(got), err, e, len(ref), refErr), desc)
			rep.violate("C04", "scratch-buffer-dependent", fmt.Sprintf("DecodeBufferForCompare with a caller buffer of %d bytes gives %d tokens (%v / %v), DecodeForCompare %d tokens (%v)", len(buf), len(got), err, e, len(ref), refErr), desc)
			return
		}
	}
}

func typedAPI(repM, repU *Report, wM, wU *CaseWriter, r *rand.Rand, thorough bool) {
	apiNamedScalars(repM, repU, wM, wU)
	apiTextHooks(repM, repU)
	apiRefAndToken(repM, repU, r)
	n := 60
	if thorough {
		n = 1500
	}
	apiTuples(repM, repU, r, n)
	apiFuncTargets(repM, repU, r)
	apiHookKeyOrder(repM, repU, r)
	apiInterleavedTaps(repM)
	apiCtxBuilders(repM, repU)
	apiSkipEmptyIsZeroMethod(repM)
	apiNoHalfAssignment(repU)
	apiRound8More(repM, repU)
	apiSkipAnything(repU)
	apiRound8Typed(repM, repU)
	apiUnmarshalSinkReuse(repU)
	apiRound7Typed(repM, repU)
	apiKeysNaNAndCycles(repM, "C08")
	apiUnicodeFieldNames(repM, repU)
	apiOddsAndEnds(repM, repU)
	apiPromotedRules(repU)
	apiSameStringTypes(repU)
	apiVeryLongChain(repM, "C01")
	apiLateRegistration(repM, "C08", "C11", "C01")
	apiFanOut(repU, r)
	streamsSharedToken(repU, "C05", "C01")
	apiDeepShared(repM, repU)
	m := 120
	if thorough {
		m = 3000
	}
	apiRecycledTargets(repU, wU, r, m)
	apiLiteralCorners(repU, wU)
}

// ---- a func WITH parameters as an unmarshal target is called with the tuple's items ----
func apiFuncTargets(repM, repU *Report, r *rand.Rand) {
	for i := 0; i < 20; i++ {
		a, s, bs, l := int(randI64(r)), string(payload(r, r.Intn(5))), payload(r, r.Intn(4)), []int{r.Intn(9), r.Intn(9)}
		ts, err := marshalTokens(sb.Tuple{a, s, bs, l}, nil)
		if err != nil {
			continue
		}
		desc := fmt.Sprintf("tuple stream into a func(int, string, []byte, []int) target: [%s]", truncate(descTokens(ts), 200))
		calls := 0
		var ga int
		var gs string
		var gb []byte
		var gl []int
		fn := func(x int, y string, z []byte, w []int) { calls++; ga, gs, gb, gl = x, y, z, w }
		e := guard(func() error { return copyBudget(tokensFrom(ts), sb.Unmarshal(fn)) })
		repU.Evaluations++
		repU.count("api:func-call-target")
		if e != nil || calls != 1 || ga != a || gs != s || !bytes.Equal(gb, bs) || !reflect.DeepEqual(gl, l) {
			repU.violate("C01", "func-call-target", fmt.Sprintf("the func was called %d times with (%v,%q,%x,%v), error %v; expected one call with (%v,%q,%x,%v)", calls, ga, gs, gb, gl, e, a, s, bs, l), desc)
		}
		// an error returned by the func is the error of the run
		fe := func(x int, y string, z []byte, w []int) error { return errInjected }
		e = guard(func() error { return copyBudget(tokensFrom(ts), sb.Unmarshal(fe)) })
		if classOf(e) != "EFault" || !isUnmarshalError(e) {
			repU.violate("C15", "fault-cause-lost", fmt.Sprintf("a func target returning an error: the run reports %v", e), desc)
			repU.violate("C05", "func-call-target", fmt.Sprintf("a func target returning an error: the run reports %v", e), desc)
		}
		// arity and type mismatches are rejected, and the func is not called
		calls = 0
		f3 := func(x int, y string, z []byte) { calls++ }
		e = guard(func() error { return copyBudget(tokensFrom(ts), sb.Unmarshal(f3)) })
		f5 := func(x int, y string, z []byte, w []int, v int) { calls++ }
		e5 := guard(func() error { return copyBudget(tokensFrom(ts), sb.Unmarshal(f5)) })
		fw := func(x int, y int, z []byte, w []int) { calls++ }
		ew := guard(func() error { return copyBudget(tokensFrom(ts), sb.Unmarshal(fw)) })
		repU.Evaluations += 4
		if e == nil || e5 == nil || ew == nil || calls != 0 || classOf(e5) != "ETooFew" || classOf(ew) != fmt.Sprintf("(EMismatch %d %d)", sb.KindString, reflect.Int) {
			repU.violate("C05", "func-call-target", fmt.Sprintf("4 items into 3 parameters: %s; into 5 parameters: %s; a string into an int parameter: %s; calls=%d", classOf(e), classOf(e5), classOf(ew), calls), desc)
		}
		// variadic: the fixed parameters are typed, the rest arrive as they are
		var rest []any
		fv := func(x int, more ...any) { calls++; ga = x; rest = more }
		calls = 0
		e = guard(func() error { return copyBudget(tokensFrom(ts), sb.Unmarshal(fv)) })
		if e != nil || calls != 1 || ga != a || len(rest) != 3 || rest[0] != any(s) {
			repU.violate("C01", "func-call-target", fmt.Sprintf("a variadic func target: error %v, calls=%d, x=%v rest=%v", e, calls, ga, rest), desc)
		}
	}
	// a func with parameters is not a tuple: marshalling it is a BadTupleType error
	_, err := marshalTokens(func(int) int { return 0 }, nil)
	repM.Evaluations++
	if classOf(err) != "EBadTuple" {
		repM.violate("C08", "func-with-parameters", fmt.Sprintf("Marshal(func(int) int) = %v, expected a BadTupleType error", err), "func(int) int")
		repM.violate("C18", "func-with-parameters", fmt.Sprintf("Marshal(func(int) int) = %v, expected a BadTupleType error", err), "func(int) int")
	}
}

// ---- a stream that fails part-way through Compare: the fault is the result, on either side ----
// a stream yielding ts[:at] and then failing
func faultyAt(ts []sb.Token, at int) sb.Stream {
	i := 0
	var p sb.Proc
	p = func(t *sb.Token) (sb.Proc, error) {
		if i == at {
			return nil, errInjected
		}
		if i >= len(ts) {
			return nil, nil
		}
		*t = ts[i]
		i++
		return p, nil
	}
	return &p
}

func apiCompareFaults(rep *Report, r *rand.Rand, n int) {
	for i := 0; i < n; i++ {
		a := randTokens(r, 6)
		if hasNaNPayload(a) {
			continue // a float token with a NaN payload is not equal to itself (the domain edge of C06)
		}
		b := append([]sb.Token{}, a...)
		if r.Intn(2) == 0 && len(b) > 0 {
			b = append(b, randToken(r))
		}
		at := r.Intn(len(a) + 1)
		desc := fmt.Sprintf("Compare with a stream failing at token %d: a=[%s] b=[%s]", at, truncate(descTokens(a), 200), truncate(descTokens(b), 200))
		for side := 0; side < 2; side++ {
			var s1, s2 sb.Stream = tokensFrom(a), tokensFrom(b)
			if side == 0 {
				s1 = faultyAt(a, at)
			} else {
				s2 = faultyAt(a, at)
				s1 = tokensFrom(b)
			}
			var res int
			var err error
			e := guard(func() error { res, err = sb.Compare(s1, s2); return nil })
			rep.Evaluations++
			rep.count("api:compare-fault")
			// the common prefix a[:at] is equal on both sides, so the fault is reached before any difference
			if e != nil || classOf(err) != "EFault" {
				rep.violate("C15", "stream-fault-lost", fmt.Sprintf("Compare returned %d, %v (%v): the fault of the %s stream is not reported", res, err, e, []string{"first", "second"}[side]), desc)
			}
		}
	}
}

// ---------------------------------------------------------------------------
// C17: the unmarshal path model (Model/UnmarshalPaths.v): result, error path and tap log of one
// TapUnmarshal run, handed to the model as a UtapsCase
// ---------------------------------------------------------------------------

var utapsW *CaseWriter // set by famTyped; nil elsewhere

var utapLeaked int

func utapsCase(rep *Report, t reflect.Type, ts []sb.Token, strict bool, desc string) {
	if utapsW == nil || len(ts) == 0 || len(ts) > 300 || usesEmbeddedOrRecursive(t) || utapLeaked >= 2 {
		return // (an empty stream leaves a tapped target untouched: pinned by the repository's own test)
	}
	tyS := coqTy(t)
	if len(tyS) > 6000 {
		return
	}
	type rec struct {
		path sb.Path
		kind sb.Kind
		tk   reflect.Kind
	}
	var log []rec
	target := reflect.New(t)
	err := withWatchdog(5*time.Second, &utapLeaked, func() error {
		return guard(func() error {
			ctx := sb.Ctx{DisallowUnknownStructFields: strict}
			return copyBudget(tokensFrom(ts), sb.TapUnmarshal(ctx, target.Interface(), func(c sb.Ctx, tok sb.Token, tg reflect.Value) {
				k := reflect.Invalid
				if tg.IsValid() && tg.Kind() == reflect.Ptr {
					k = tg.Type().Elem().Kind()
				}
				log = append(log, rec{append(sb.Path{}, c.Path...), tok.Kind, k})
			}))
		})
	})
	rep.Evaluations++
	rep.count("c17:utaps-class:" + classOf(err))
	if classOf(err) == "EDiverge" || classOf(err) == "EPanic" {
		return // reported by the C05 oracles
	}
	var obs string
	if err != nil {
		var ep sb.Path
		if errors.As(err, &ep) {
			obs = "(UPErr " + classOf(err) + " (Some " + coqPath(ep) + "))"
		} else {
			obs = "(UPErr " + classOf(err) + " None)"
			rep.violate("C17", "error-without-path", fmt.Sprintf("an unmarshal error carries no path: %v", err), desc)
		}
	} else {
		obs = "(UPOk " + coqGval(target.Elem()) + ")"
	}
	var xs []string
	for _, l := range log {
		xs = append(xs, fmt.Sprintf("(%s, %d, %d)", coqPath(l.path), int(l.kind), int(l.tk)))
	}
	term := fmt.Sprintf("UtapsCase %s %s %s %s %s %s %s [%s]", coqOpts(false, strict, false), coqRegistry(), tyS, "(zero "+tyS+")", coqTokens(ts), floatTable(ts), obs, strings.Join(xs, "; "))
	if len(term) > 40000 {
		return
	}
	utapsW.add(term, "utaps: "+desc, len(log) >= 2)
}

// ---- one Copy, several unmarshalling sinks: each reads the stream as it would alone ----
// (the token handed to the sinks of a step is shared; a sink must not rewrite it for the others)
func apiFanOut(rep *Report, r *rand.Rand) {
	lit := func(s string) sb.Token { return sb.Token{Kind: sb.KindLiteral, Value: s} }
	streams := [][]sb.Token{
		{lit("7")}, {lit("-128")}, {lit("1.5")}, {lit("300")},
		{tokK(sb.KindArray), lit("1"), lit("2"), lit("200"), tokK(sb.KindArrayEnd)},
		{tokK(sb.KindObject), tokS("A"), lit("2"), tokS("B"), tokK(sb.KindArray), lit("3"), tokK(sb.KindArrayEnd), tokK(sb.KindObjectEnd)},
		{tokI(5)}, {tokS("x")}, {tokK(sb.KindNil)},
	}
	mks := []func() any{
		func() any { return new(int8) }, func() any { return new(float64) }, func() any { return new(uint16) }, func() any { return new(string) },
		func() any { return new([]int64) }, func() any { return new([]float32) }, func() any { return new([]string) },
		func() any {
			return new(struct {
				A float32
				B []int16
			})
		},
		func() any {
			return new(struct {
				A string
				B []uint8
			})
		},
		func() any { return new(*int) },
	}
	for _, ts := range streams {
		// the targets that accept this stream alone
		var acc []int
		for k := range mks {
			tgt := mks[k]()
			if guard(func() error { return copyBudget(tokensFrom(ts), sb.Unmarshal(tgt)) }) == nil {
				acc = append(acc, k)
			}
		}
		if len(acc) == 0 {
			continue
		}
		for trial := 0; trial < 8; trial++ {
			n := 2 + r.Intn(3)
			idx := make([]int, n)
			for i := range idx {
				idx[i] = acc[r.Intn(len(acc))]
			}
			// alone
			alone := make([]any, n)
			aloneErr := make([]error, n)
			for i, k := range idx {
				alone[i] = mks[k]()
				tgt := alone[i]
				aloneErr[i] = guard(func() error { return copyBudget(tokensFrom(ts), sb.Unmarshal(tgt)) })
			}
			// together, in one Copy (a failing sink ends the run for all: only runs in which every sink accepts alone are compared)
			allOK := true
			for _, e := range aloneErr {
				if e != nil {
					allOK = false
				}
			}
			if !allOK {
				continue
			}
			tog := make([]any, n)
			sinks := make([]sb.Sink, n)
			for i, k := range idx {
				tog[i] = mks[k]()
				sinks[i] = sb.Unmarshal(tog[i])
			}
			e := guard(func() error { return sb.Copy(tokensFrom(ts), sinks...) })
			rep.Evaluations += n + 1
			rep.count("api:fan-out")
			desc := fmt.Sprintf("one Copy of [%s] into %d Unmarshal sinks", descTokens(ts), n)
			for i := range idx {
				desc += fmt.Sprintf(" %T", tog[i])
			}
			bad := e != nil
			for i := range idx {
				if !bad && !reflect.DeepEqual(alone[i], tog[i]) {
					bad = true
				}
			}
			if bad {
				what := fmt.Sprintf("every sink accepts the stream alone, together the run gives %v and the values differ from the ones decoded alone", e)
				for _, p := range []string{"C05", "C01", "C14"} {
					rep.violate(p, "fan-out-differs", what, desc)
				}
			}
		}
	}
}

// ---- deep values with SHARED (not cyclic) references beyond the depth at which cycle detection starts ----
type deepNode struct {
	Next  *deepNode
	L, R  *int
	Items []*int
	M     map[string]*int
}

func apiDeepShared(repM, repU *Report) {
	for _, depth := range []int{3, 999, 1000, 1001, 1200} {
		for variant := 0; variant < 4; variant++ {
			leaf := new(int)
			*leaf = 42
			tail := &deepNode{}
			switch variant {
			case 0:
				tail.L, tail.R = leaf, leaf
			case 1:
				tail.Items = []*int{leaf, leaf, leaf}
			case 2:
				tail.M = map[string]*int{"a": leaf, "b": leaf}
			case 3:
				tail.L = leaf
				tail.Items = []*int{leaf}
				tail.M = map[string]*int{"a": leaf}
			}
			head := tail
			for i := 0; i < depth; i++ {
				head = &deepNode{Next: head}
			}
			desc := fmt.Sprintf("a list of %d nodes whose last node holds the same pointer in several positions (variant %d): acyclic", depth, variant)
			var ts []sb.Token
			var err error
			var leaked int
			e := withWatchdog(20*time.Second, &leaked, func() error { ts, err = marshalTokens(head, nil); return nil })
			repM.Evaluations++
			repM.count("api:deep-shared")
			if e != nil || err != nil {
				for _, p := range []string{"C01", "C18", "C08"} {
					repM.violate(p, "acyclic-rejected", fmt.Sprintf("Marshal of an acyclic value failed: %v %v", err, e), desc)
				}
				continue
			}
			var back *deepNode
			eu := withWatchdog(20*time.Second, &leaked, func() error {
				return guard(func() error { return sb.Copy(tokensFrom(ts), sb.Unmarshal(&back)) })
			})
			repU.Evaluations++
			ok := eu == nil
			n := 0
			var last *deepNode
			for p := back; ok && p != nil; p = p.Next {
				n++
				last = p
			}
			if ok && (n != depth+1 || last == nil) {
				ok = false
			}
			if ok {
				tail.Next, last.Next = nil, nil
				if !equivValues(reflect.ValueOf(*tail), reflect.ValueOf(*last)) {
					ok = false
				}
			}
			if !ok {
				repU.violate("C01", "roundtrip-error", fmt.Sprintf("a deep acyclic value does not round-trip: %v (%d nodes back)", eu, n), desc)
			}
		}
	}
}

// ---- recycled targets: slices cut back to length 0 keep their capacity and whatever lies behind it ----
func recycle(v reflect.Value) {
	switch v.Kind() {
	case reflect.Ptr:
		if !v.IsNil() {
			recycle(v.Elem())
		}
	case reflect.Struct:
		for i := 0; i < v.NumField(); i++ {
			if v.Type().Field(i).PkgPath == "" {
				recycle(v.Field(i))
			}
		}
	case reflect.Array:
		for i := 0; i < v.Len(); i++ {
			recycle(v.Index(i))
		}
	case reflect.Slice:
		if v.CanSet() && !v.IsNil() {
			v.Set(v.Slice(0, 0))
		}
	}
}

func hasSlice(t reflect.Type, depth int) bool {
	if depth > 4 {
		return false
	}
	switch t.Kind() {
	case reflect.Slice:
		return !t.AssignableTo(bytesTy)
	case reflect.Ptr, reflect.Array:
		return hasSlice(t.Elem(), depth+1)
	case reflect.Struct:
		for i := 0; i < t.NumField(); i++ {
			if t.Field(i).PkgPath == "" && hasSlice(t.Field(i).Type, depth+1) {
				return true
			}
		}
	}
	return false
}

type recElem struct {
	Note string
	N    int
	Tags []string
	P    *int
}
type recHolder struct {
	Elems []recElem
	Ptrs  []*recElem
	Nums  []int
	Name  string
}

func apiRecycledTargets(repU *Report, wU *CaseWriter, r *rand.Rand, n int) {
	reg := coqRegistry()
	fixed := []reflect.Type{reflect.TypeOf([]recElem(nil)), reflect.TypeOf(recHolder{}), reflect.TypeOf([][]recElem(nil)), reflect.TypeOf([2][]recElem{})}
	for i := 0; i < n; i++ {
		var t reflect.Type
		if i%3 != 2 {
			t = fixed[r.Intn(len(fixed))]
		} else {
			t = randType(r, 3)
			if !hasSlice(t, 0) || usesEmbeddedOrRecursive(t) {
				continue
			}
		}
		v1 := randGoValue(r, t, 3)
		v2 := randGoValue(r, t, 2)
		if hasBadMapKey(v1) || hasBadMapKey(v2) || hasTiedKeys(v1) || hasTiedKeys(v2) || hasCompositeIfaceKey(v1) || hasCompositeIfaceKey(v2) || hasPtrToNilPtr(v1) {
			continue
		}
		ts1, e1 := marshalTokens(v1.Interface(), nil)
		skip := mkCtx(true, false)
		ts2, e2 := marshalTokens(v2.Interface(), &skip)
		if e1 != nil || e2 != nil || len(ts2) > 300 {
			continue
		}
		target := reflect.New(t)
		if e := guard(func() error { return copyBudget(tokensFrom(ts1), sb.Unmarshal(target.Interface())) }); e != nil {
			continue
		}
		recycle(target.Elem())
		curS := coqGval(target.Elem())
		tyS := coqTy(t)
		if len(curS)+len(tyS) > 14000 {
			continue
		}
		eU := guard(func() error { return copyBudget(tokensFrom(ts2), sb.Unmarshal(target.Interface())) })
		repU.Evaluations++
		repU.count("api:recycled-target")
		desc := fmt.Sprintf("recycled target (slices cut to length 0 after a first message): type=%v second stream=[%s]", t, truncate(descTokens(ts2), 300))
		if classOf(eU) == "EPanic" {
			repU.violate("C05", "unmarshal-panic", fmt.Sprintf("%v", eU), desc)
			continue
		}
		wU.add(fmt.Sprintf("UnmarshalCase %s %s %s %s %s %s %s", coqOpts(false, false, false), reg, tyS, curS, coqTokens(ts2), floatTable(ts2), uobs(target.Elem(), eU)), desc, true)
		// Go-side: the elements appended to a recycled slice are the elements a fresh target gets
		if t.Kind() == reflect.Slice && eU == nil {
			fresh := reflect.New(t)
			ef := guard(func() error { return copyBudget(tokensFrom(ts2), sb.Unmarshal(fresh.Interface())) })
			if ef != nil || !equivValues(fresh.Elem(), target.Elem()) {
				what := fmt.Sprintf("a slice target recycled with s[:0] decodes to %s, a fresh target to %s (%v): fields the stream omits keep data of the previous message", truncate(fmt.Sprintf("%+v", safeFormat(target.Elem())), 300), truncate(fmt.Sprintf("%+v", safeFormat(fresh.Elem())), 300), ef)
				repU.violate("C16", "recycled-target-differs", what, desc)
				repU.violate("C01", "recycled-target-differs", what, desc)
				repU.violate("C05", "recycled-target-differs", what, desc)
			}
		}
	}
}

// ---- a decoder set up on a buffer that is still being written (encoder and decoder on one bytes.Buffer,
// values written and read alternately): every token comes back as it was written ----
func apiInterleavedCodec(rep *Report, ts []sb.Token, desc string) {
	if len(ts) == 0 {
		return
	}
	var buf bytes.Buffer
	var got []sb.Token
	err := guard(func() error {
		dec := sb.Decode(&buf)
		sink := sb.Encode(&buf)
		for i := range ts {
			tk := ts[i]
			var e error
			sink, e = sink(&tk)
			if e != nil {
				return fmt.Errorf("encode: %w", e)
			}
			var t sb.Token
			if e := dec.Next(&t); e != nil {
				return fmt.Errorf("decode of token %d: %w", i, e)
			}
			if t.Invalid() {
				return fmt.Errorf("decode of token %d: the stream ended", i)
			}
			got = append(got, t)
		}
		return nil
	})
	rep.Evaluations++
	rep.count("api:interleaved-codec")
	if err != nil || !tokensExactEq(got, ts) {
		what := fmt.Sprintf("tokens written to and read back from one growing buffer alternately: %v; read [%s]", err, truncate(descTokens(got), 300))
		rep.violate("C02", "interleaved-roundtrip", what, desc)
		rep.violate("C04", "interleaved-roundtrip", what, desc)
		rep.violate("C01", "codec-roundtrip", what, desc)
	}
}

// ---- the bytes of a token reach the writer when the token is encoded: after every step of a hand-driven
// Encode sink the writer holds exactly the encoding of the tokens fed so far (every writer flavour) ----
func apiIncrementalEncode(rep *Report, ts []sb.Token, full []byte, desc string) {
	if len(ts) == 0 || len(full) > 200000 {
		return
	}
	for flavour := range writerFlavours {
		w, cw := mkWriter(flavour, 0)
		var bad string
		err := guard(func() error {
			sink := sb.Encode(w)
			prev := 0
			for i := range ts {
				tk := ts[i]
				var e error
				sink, e = sink(&tk)
				if e != nil {
					return e
				}
				n := cw.buf.Len()
				if n <= prev || n > len(full) || !bytes.Equal(cw.buf.Bytes(), full[:n]) {
					bad = fmt.Sprintf("after token %d the writer holds %d bytes (%d before it); the stream's encoding has %d", i, n, prev, len(full))
					return nil
				}
				prev = n
			}
			if prev != len(full) {
				bad = fmt.Sprintf("after the last token the writer holds %d of %d bytes", prev, len(full))
			}
			return nil
		})
		rep.Evaluations++
		rep.count("api:incremental-encode")
		if err != nil || bad != "" {
			what := fmt.Sprintf("writer flavour %q driven token by token (as Sink.Marshal does): %s %v", writerFlavours[flavour], bad, err)
			rep.violate("C03", "encode-holds-back-bytes", what, desc)
			rep.violate("C02", "encode-holds-back-bytes", what, desc)
			rep.violate("C15", "encode-holds-back-bytes", what, desc)
			return
		}
	}
	// the library's own Sink.Marshal over a plain writer
	if len(ts) == 1 {
		switch ts[0].Kind {
		case sb.KindInt, sb.KindString, sb.KindBool, sb.KindBytes:
			w, cw := mkWriter(0, 0)
			err := guard(func() error {
				s, e := sb.Encode(w).Marshal(ts[0].Value)
				_ = s
				return e
			})
			if err != nil || !bytes.Equal(cw.buf.Bytes(), full) {
				what := fmt.Sprintf("Encode(w).Marshal(v) left %d bytes in the writer, the value's encoding has %d (%v)", cw.buf.Len(), len(full), err)
				rep.violate("C03", "encode-holds-back-bytes", what, desc)
				rep.violate("C02", "encode-holds-back-bytes", what, desc)
			}
		}
	}
}

// ---- Compare over two comparison decoders that were given scratch buffers of DIFFERENT sizes ----
func cmpSegBuffers(a, b []byte, na, nb int) (res int, err error) {
	err = guard(func() error {
		ra, rb := bytes.NewReader(a), bytes.NewReader(b)
		pa := sb.DecodeBufferForCompare(ra, ra, make([]byte, na), nil)
		pb := sb.DecodeBufferForCompare(rb, rb, make([]byte, nb), nil)
		var e error
		res, e = sb.Compare(&pa, &pb)
		return e
	})
	return
}

var scratchSizes = []int{8, 9, 16, 32, 64, 100, 4096}

func apiCompareScratch(rep *Report, r *rand.Rand, ea, eb []byte, s1 int, e1 error, desc string) {
	na, nb := scratchSizes[r.Intn(len(scratchSizes))], scratchSizes[r.Intn(len(scratchSizes))]
	s, e := cmpSegBuffers(ea, eb, na, nb)
	rep.Evaluations++
	rep.count("api:compare-scratch-sizes")
	if e1 == nil && (e != nil || sgn(s) != sgn(s1)) {
		rep.violate("C07", "routes-disagree", fmt.Sprintf("tokens=%d, DecodeBufferForCompare with scratch buffers of %d and %d bytes=%d (%v)", sgn(s1), na, nb, sgn(s), e), desc)
		rep.violate("C04", "scratch-buffer-dependent", fmt.Sprintf("tokens=%d, DecodeBufferForCompare with scratch buffers of %d and %d bytes=%d (%v)", sgn(s1), na, nb, sgn(s), e), desc)
	}
}

// ---- map keys of string-kinded types WITH marshalling hooks: entries are ordered by the keys' marshalled
// streams, not by the raw key strings ----
type RevKey string // Text hook: the text is the key reversed

func (k RevKey) MarshalText() ([]byte, error) {
	b := []byte(k)
	for i, j := 0, len(b)-1; i < j; i, j = i+1, j-1 {
		b[i], b[j] = b[j], b[i]
	}
	return b, nil
}
func (k *RevKey) UnmarshalText(bs []byte) error {
	b := append([]byte{}, bs...)
	for i, j := 0, len(b)-1; i < j; i, j = i+1, j-1 {
		b[i], b[j] = b[j], b[i]
	}
	*k = RevKey(b)
	return nil
}

type LenKey string // SB hook: marshals as the length of the key

func (k LenKey) MarshalSB(ctx sb.Ctx, cont sb.Proc) sb.Proc {
	return ctx.Marshal(ctx, reflect.ValueOf(len(k)), cont)
}

type NegKey int // Binary hook on an int-kinded type: marshals as the decimal text of -k

func (k NegKey) MarshalBinary() ([]byte, error) {
	return []byte(fmt.Sprintf("%08d", 1000000-int(k))), nil
}
func (k *NegKey) UnmarshalBinary(bs []byte) error {
	var n int
	if _, err := fmt.Sscanf(string(bs), "%d", &n); err != nil {
		return err
	}
	*k = NegKey(1000000 - n)
	return nil
}

func apiHookKeyOrder(repM, repU *Report, r *rand.Rand) {
	vals := []any{
		map[RevKey]int{"az": 1, "by": 2, "cx": 3, "": 0},
		map[LenKey]string{"aaaa": "4", "b": "1", "cc": "2"},
		map[NegKey]bool{1: true, 2: false, 30: true},
		map[any]int{RevKey("az"): 1, RevKey("by"): 2, "plain": 3},
		struct{ M map[RevKey][]int }{map[RevKey][]int{"mz": {1}, "na": {2}}},
	}
	for _, x := range vals {
		v := reflect.ValueOf(x)
		ts, err := marshalTokens(x, nil)
		repM.Evaluations++
		repM.count("api:hook-key-order")
		desc := fmt.Sprintf("map keys with marshalling hooks: type=%v", v.Type())
		if err != nil {
			repM.violate("C08", "marshal-error", fmt.Sprintf("%v", err), desc)
			continue
		}
		if ok, msg := mapKeysAscending(ts); !ok {
			repM.violate("C08", "map-keys-not-ascending", msg+" in ["+truncate(descTokens(ts), 300)+"]", desc)
		}
		rb := rebuildMaps(r, v)
		ts2, e2 := marshalTokens(rb.Interface(), nil)
		if e2 != nil || !tokensExactEq(ts, ts2) {
			repM.violate("C08", "map-history-dependent", "the same content built through a different insertion/deletion history marshals differently", desc)
		}
	}
	// round trip of the two key types that can be read back
	m1 := map[RevKey]int{"az": 1, "by": 2, "cx": 3, "": 0}
	m2 := map[NegKey]bool{1: true, 2: false, 30: true}
	for _, x := range []any{m1, m2} {
		ts, _ := marshalTokens(x, nil)
		back := reflect.New(reflect.TypeOf(x))
		e := guard(func() error { return copyBudget(tokensFrom(ts), sb.Unmarshal(back.Interface())) })
		repU.Evaluations++
		if e != nil || !reflect.DeepEqual(back.Elem().Interface(), x) {
			repU.violate("C01", "roundtrip-error", fmt.Sprintf("a map keyed by a hook type does not round-trip: %v, got %v", e, back.Elem().Interface()), fmt.Sprintf("type=%T", x))
		}
	}
}

// ---- a type that carries a marshalling method and is registered LATE: marshalled through a pointer / an
// interface before sb.Register, then registered; from then on it carries its type name at every level of
// indirection, whatever was marshalled before ----
type LateBin struct{ N int }

func (l LateBin) MarshalBinary() ([]byte, error) { return []byte(fmt.Sprintf("late:%d", l.N)), nil }
func (l *LateBin) UnmarshalBinary(bs []byte) error {
	_, err := fmt.Sscanf(string(bs), "late:%d", &l.N)
	return err
}

type LateText struct{ N int }

func (l LateText) MarshalText() ([]byte, error) { return []byte(fmt.Sprintf("text:%d", l.N)), nil }
func (l *LateText) UnmarshalText(bs []byte) error {
	_, err := fmt.Sscanf(string(bs), "text:%d", &l.N)
	return err
}

type LateSB struct{ N int }

func (l LateSB) MarshalSB(ctx sb.Ctx, cont sb.Proc) sb.Proc {
	return ctx.Marshal(ctx, reflect.ValueOf(l.N), cont)
}

var lateDone bool

func apiLateRegistration(rep *Report, props ...string) {
	if lateDone {
		return // the history can be played once per process
	}
	lateDone = true
	vals := []any{LateBin{7}, LateText{8}, LateSB{9}}
	for _, x := range vals {
		t := reflect.TypeOf(x)
		px := reflect.New(t)
		px.Elem().Set(reflect.ValueOf(x))
		var boxed any = x
		desc := fmt.Sprintf("late registration of %v (a type with a marshalling method)", t)
		// before registration: marshalled directly, through a pointer, in an interface, concurrently
		before, _ := marshalTokens(x, nil)
		done := make(chan struct{})
		for g := 0; g < 4; g++ {
			go func() {
				for i := 0; i < 50; i++ {
					marshalTokens(px.Interface(), nil)
					marshalTokens(&boxed, nil)
					marshalTokens([]any{x, px.Interface()}, nil)
				}
				done <- struct{}{}
			}()
		}
		for g := 0; g < 4; g++ {
			<-done
		}
		sb.Register(t)
		name := refTypeName(t)
		want := append([]sb.Token{{Kind: sb.KindTypeName, Value: name}}, before...)
		forms := map[string]any{"T": x, "*T": px.Interface(), "*any": &boxed, "[]any{T}": []any{x}, "[]any{*T}": []any{px.Interface()}}
		for fname, f := range forms {
			got, err := marshalTokens(f, nil)
			rep.Evaluations++
			rep.count("api:late-registration")
			if len(got) >= 2 && got[0].Kind == sb.KindArray {
				got = got[1 : len(got)-1]
			}
			if err != nil || !tokensExactEq(got, want) {
				what := fmt.Sprintf("after Register(%v) a value marshalled as %s gives [%s] (%v), expected [%s]: the result depends on what was marshalled before the registration", t, fname, descTokens(got), err, descTokens(want))
				for _, p := range props {
					key := "registered-not-prefixed"
					if p == "C19" {
						key = "concurrent-result-differs"
					}
					rep.violate(p, key, what, desc)
				}
			}
		}
		if _, ok := x.(LateSB); !ok {
			// round trip into any resurrects the registered type
			ts, _ := marshalTokens(px.Interface(), nil)
			var back any
			e := guard(func() error { return copyBudget(tokensFrom(ts), sb.Unmarshal(&back)) })
			if e != nil || reflect.TypeOf(back) != t || !reflect.DeepEqual(back, x) {
				for _, p := range props {
					if p == "C11" || p == "C19" {
						key := "registered-name-not-resurrected"
						if p == "C19" {
							key = "concurrent-result-differs"
						}
						rep.violate(p, key, fmt.Sprintf("a pointer to a value of the late-registered %v decodes into %T %v (%v)", t, back, back, e), desc)
					}
				}
			}
		}
	}
}

// ---- FilterProc over producers that set only Kind for valueless tokens: what comes out is the filtered
// token list of the source, token for token (a rejected token's payload must not survive in the next one) ----
func apiFilterStale(rep *Report) {
	type srcT struct {
		name string
		mk   func() sb.Stream
	}
	one := 1
	srcs := []srcT{
		{"Marshal(sb.Tuple{1, \"a\", 2, \"b\"})", func() sb.Stream { return sb.Marshal(sb.Tuple{1, "a", 2, "b"}) }},
		{"Marshal(sb.Tuple{\"x\"})", func() sb.Stream { return sb.Marshal(sb.Tuple{"x"}) }},
		{"Marshal([]any{sb.Tuple{1, \"s\"}, \"t\"})", func() sb.Stream { return sb.Marshal([]any{sb.Tuple{1, "s"}, "t", &one}) }},
		{"DecodeJson [1,\"a\",{\"k\":null,\"m\":[true,\"z\"]}]", func() sb.Stream { return sb.DecodeJson(strings.NewReader(`[1,"a",{"k":null,"m":[true,"z"]}]`), nil) }},
		{"DecodeJson {\"a\":\"b\"}", func() sb.Stream { return sb.DecodeJson(strings.NewReader(`{"a":"b"}`), nil) }},
		{"Marshal(struct)", func() sb.Stream {
			return sb.Marshal(struct {
				A string
				B []string
				C func() (string, int)
			}{"a", []string{"x", "y"}, func() (string, int) { return "r", 1 }})
		}},
	}
	// (the predicate says which tokens to KEEP)
	preds := map[string]func(*sb.Token) bool{
		"drop strings":  func(t *sb.Token) bool { return t.Kind != sb.KindString },
		"drop numbers":  func(t *sb.Token) bool { return t.Kind != sb.KindInt && t.Kind != sb.KindLiteral },
		"drop payloads": func(t *sb.Token) bool { return t.Value == nil },
	}
	for _, src := range srcs {
		all, err := collect(src.mk())
		if err != nil {
			continue
		}
		for pname, pred := range preds {
			var want []sb.Token
			for i := range all {
				if pred(&all[i]) {
					want = append(want, all[i])
				}
			}
			got, e := collect(sb.FilterProc(src.mk(), pred))
			rep.Evaluations++
			rep.count("api:filter-stale")
			desc := fmt.Sprintf("FilterProc(%s, %s)", src.name, pname)
			ok := e == nil && tokensExactEq(got, want)
			var b1, b2 bytes.Buffer
			e1 := guard(func() error { return sb.Copy(tokensFrom(got), sb.Encode(&b1)) })
			e2 := guard(func() error { return sb.Copy(tokensFrom(want), sb.Encode(&b2)) })
			if ok && (e1 != nil || e2 != nil || !bytes.Equal(b1.Bytes(), b2.Bytes())) {
				ok = false
			}
			if !ok {
				what := fmt.Sprintf("delivered [%s] (%v), the source filtered by hand is [%s]; encodings %x / %x", descTokensV(got), e, descTokensV(want), b1.Bytes(), b2.Bytes())
				rep.violate("C14", "filter-delivers-stale-payload", what, desc)
				rep.violate("C13", "combinator-not-transparent", what, desc)
			}
		}
	}
}

// tokens with the Go type of their Value spelled out (a valueless token carrying a stale payload shows)
func descTokensV(ts []sb.Token) string {
	var xs []string
	for _, t := range ts {
		xs = append(xs, fmt.Sprintf("%d:%T:%v", t.Kind, t.Value, t.Value))
	}
	return truncate(strings.Join(xs, " "), 400)
}

// ---- C17: two tapped streams derived from sb.DefaultCtx, pulled alternately ----
func apiInterleavedTaps(repM *Report) {
	type inner struct{ X, Y int }
	v1 := []any{[]int{1, 2, 3}, map[string]int{"a": 1}, inner{1, 2}}
	v2 := struct {
		F []int
		G []inner
		H map[string][]int
	}{[]int{7, 8}, []inner{{3, 4}, {5, 6}}, map[string][]int{"k": {9}}}
	for _, base := range []struct {
		name string
		ctx  sb.Ctx
	}{{"sb.DefaultCtx", sb.DefaultCtx}, {"sb.Ctx{}", sb.Ctx{}}} {
		// (a base context whose path has SPARE CAPACITY - DefaultCtx.WithPath("a").WithPath("b").WithPath("c"): len 3, cap 4 -
		// does alias the paths of two interleaved runs on the unchanged tree: runs that are in progress at the same time
		// are outside C17's quantifier, which ranges over the values of one run; recorded in DESIGN.md as a domain edge)
		run := func(v any, log *[]string) sb.Stream {
			return sb.TapMarshal(base.ctx, v, func(c sb.Ctx, val reflect.Value) {
				*log = append(*log, c.Path.String())
			})
		}
		// alone
		var a1, a2 []string
		collect(run(v1, &a1))
		collect(run(v2, &a2))
		// interleaved: one token from each in turn
		var b1, b2 []string
		s1, s2 := run(v1, &b1), run(v2, &b2)
		e := guard(func() error {
			d1, d2 := false, false
			for i := 0; i < 10000 && !(d1 && d2); i++ {
				var t sb.Token
				if !d1 {
					if err := s1.Next(&t); err != nil {
						return err
					}
					d1 = t.Invalid()
				}
				var u sb.Token
				if !d2 {
					if err := s2.Next(&u); err != nil {
						return err
					}
					d2 = u.Invalid()
				}
			}
			return nil
		})
		repM.Evaluations += 4
		repM.count("api:interleaved-taps")
		if e != nil || strings.Join(a1, " ") != strings.Join(b1, " ") || strings.Join(a2, " ") != strings.Join(b2, " ") {
			repM.violate("C17", "marshal-tap-path", fmt.Sprintf("two tapped streams pulled alternately report paths [%s] / [%s]; each alone reports [%s] / [%s] (%v)", truncate(strings.Join(b1, " "), 200), truncate(strings.Join(b2, " "), 200), truncate(strings.Join(a1, " "), 200), truncate(strings.Join(a2, " "), 200), e), "interleaved TapMarshal streams derived from "+base.name)
		}
	}
}

// ---- C16 / C05: Go's rule for promoted fields: the shallowest declaration wins; two declarations at the same
// depth are ambiguous and the name is then NOT a field of the type (unknown: skipped, or rejected when strict) ----
type ambA struct {
	Dup  int
	OnlA int
}
type ambB struct {
	Dup  int
	OnlB int
}
type ambDeepInner struct{ Lvl int }
type ambDeep struct {
	ambDeepInner // Lvl at depth 2 (through ambDeep)
	Mid          int
}
type ambShallow struct{ Lvl int } // Lvl at depth 1
type WithAmbiguous struct {
	ambA
	ambB
	Own int
}
type WithDepths struct {
	ambDeep
	ambShallow
	Own int
}

func apiPromotedRules(repU *Report) {
	obj := func(fields ...sb.Token) []sb.Token {
		return append(append([]sb.Token{tokK(sb.KindObject)}, fields...), tokK(sb.KindObjectEnd))
	}
	strict := sb.Ctx{DisallowUnknownStructFields: true}
	// (1) an ambiguous name is unknown
	for _, st := range []bool{false, true} {
		var v WithAmbiguous
		ts := obj(tokS("Dup"), tokI(5), tokS("OnlA"), tokI(1), tokS("OnlB"), tokI(2), tokS("Own"), tokI(3))
		var e error
		if st {
			ts = obj(tokS("OnlA"), tokI(1), tokS("Dup"), tokI(5))
			e = guard(func() error { return copyBudget(tokensFrom(ts), sb.UnmarshalValue(strict, reflect.ValueOf(&v), nil)) })
		} else {
			e = guard(func() error { return copyBudget(tokensFrom(ts), sb.Unmarshal(&v)) })
		}
		repU.Evaluations++
		repU.count("api:promoted-rules")
		desc := fmt.Sprintf("a name declared by two embedded structs at the same depth (strict=%v): stream=[%s]", st, descTokens(ts))
		if st {
			if classOf(e) != "EUnknownField" {
				for _, p := range []string{"C16", "C05"} {
					repU.violate(p, "strict-unknown-accepted", fmt.Sprintf("the ambiguous name is not a field of the type, strict mode must reject it: got %v, value %+v", e, v), desc)
				}
			}
		} else if e != nil || v.ambA.Dup != 0 || v.ambB.Dup != 0 || v.OnlA != 1 || v.OnlB != 2 || v.Own != 3 {
			for _, p := range []string{"C16", "C05"} {
				repU.violate(p, "assign-by-name", fmt.Sprintf("the ambiguous name must be skipped and the other fields assigned: got %+v (%v)", v, e), desc)
			}
		}
	}
	// (2) the shallowest declaration wins, whatever the order of the embedded structs
	{
		var v WithDepths
		ts := obj(tokS("Lvl"), tokI(9), tokS("Mid"), tokI(4), tokS("Own"), tokI(3))
		e := guard(func() error { return copyBudget(tokensFrom(ts), sb.Unmarshal(&v)) })
		repU.Evaluations++
		desc := fmt.Sprintf("a name declared at depth 2 in the first embedded struct and at depth 1 in the second: stream=[%s]", descTokens(ts))
		if e != nil || v.ambShallow.Lvl != 9 || v.ambDeep.ambDeepInner.Lvl != 0 || v.Mid != 4 || v.Own != 3 {
			for _, p := range []string{"C16", "C05"} {
				repU.violate(p, "assign-by-name", fmt.Sprintf("the shallowest declaration must receive the value: got %+v (%v)", v, e), desc)
			}
		}
		// encoding/json applies the same rule
		var j WithDepths
		if json.Unmarshal([]byte(`{"Lvl":9,"Mid":4,"Own":3}`), &j) == nil && !reflect.DeepEqual(j, v) && e == nil {
			repU.violate("C20", "differs-from-encoding-json", fmt.Sprintf("sb gives %+v, encoding/json gives %+v", v, j), desc)
		}
	}
}

// ---- C18: an acyclic chain far longer than any table of visited references an implementation might cap ----
type longNode struct {
	Next *longNode
	V    int
}

func apiVeryLongChain(rep *Report, props ...string) {
	const n = 70000
	var head *longNode
	for i := 0; i < n; i++ {
		head = &longNode{Next: head, V: i}
	}
	var box any = 1
	for i := 0; i < n; i++ {
		b := box
		box = &b
	}
	for name, v := range map[string]any{"a linked list of 70000 nodes": head, "70000 nested *any boxes": box} {
		var cnt int
		var err error
		var leaked int
		e := withWatchdog(60*time.Second, &leaked, func() error {
			return guard(func() error {
				s := sb.Marshal(v)
				for {
					var t sb.Token
					if err = s.Next(&t); err != nil || t.Invalid() {
						return nil
					}
					cnt++
				}
			})
		})
		rep.Evaluations++
		rep.count("api:very-long-chain")
		if e != nil || err != nil {
			for _, p := range props {
				rep.violate(p, "acyclic-rejected", fmt.Sprintf("an acyclic value failed to marshal after %d tokens: %v %v", cnt, err, e), name)
			}
		}
	}
}

// ---- C11: two registered types whose reflect.Type.String() is the same (same package base name) ----
func apiSameStringTypes(repU *Report) {
	t1, t2 := reflect.TypeOf(mrand.Zipf{}), reflect.TypeOf(mrand2.Zipf{})
	if t1.String() != t2.String() || t1 == t2 {
		return
	}
	sb.Register(t1)
	sb.Register(t2)
	mk := func(t reflect.Type) []sb.Token {
		return []sb.Token{tokK(sb.KindObject), tokS("F"), {Kind: sb.KindTypeName, Value: refTypeName(t)}, tokK(sb.KindObject), tokK(sb.KindObjectEnd), tokS("N"), tokI(1), tokK(sb.KindObjectEnd)}
	}
	for i, t := range []reflect.Type{t1, t2, t1} {
		ts := mk(t)
		var x any
		e := guard(func() error { return copyBudget(tokensFrom(ts), sb.Unmarshal(&x)) })
		repU.Evaluations++
		repU.count("api:same-string-types")
		desc := fmt.Sprintf("object %d of three whose field F holds a registered %s (%s): [%s]", i, t.String(), refTypeName(t), descTokens(ts))
		if classOf(e) == "EPanic" {
			repU.violate("C11", "any-panic", fmt.Sprintf("%v", e), desc)
			repU.violate("C05", "unmarshal-panic", fmt.Sprintf("%v", e), desc)
			continue
		}
		ok := e == nil && x != nil
		if ok {
			f := reflect.ValueOf(x).FieldByName("F")
			ok = f.IsValid() && f.Type() == t
		}
		if !ok {
			repU.violate("C11", "registered-name-not-resurrected", fmt.Sprintf("field F decodes into %+v (%v), expected a value of exactly %s", x, e, refTypeName(t)), desc)
		} else if re, e2 := marshalTokens(x, nil); e2 != nil || !tokensExactEq(re, ts) {
			repU.violate("C11", "any-not-lossless", fmt.Sprintf("re-marshalling gives [%s] (%v)", descTokens(re), e2), desc)
		}
	}
}

// ---- C02 / C04: a blob longer than 16 MiB that is FOLLOWED by more data in the same reader ----
func apiHugeBlob(rep *Report) {
	for _, k := range []sb.Kind{sb.KindBytes, sb.KindRef} {
		n := 16*1024*1024 + 3
		blob := make([]byte, n)
		for i := range blob {
			blob[i] = byte(i * 7)
		}
		ts := []sb.Token{{Kind: k, Value: blob}, tokI(77), tokS("after")}
		var buf bytes.Buffer
		if e := guard(func() error { return sb.Copy(tokensFrom(ts), sb.Encode(&buf)) }); e != nil {
			rep.violate("C02", "encode-error", fmt.Sprintf("%v", e), "a 16 MiB blob")
			continue
		}
		enc := buf.Bytes()
		for _, cmp := range []bool{false, true} {
			if cmp {
				continue // the comparison decoder delivers strings and blobs in segments; the plain decoder is the subject here
			}
			var got []sb.Token
			var err error
			e := guard(func() error {
				if cmp {
					got, err = collect(sb.DecodeForCompare(bytes.NewReader(enc)))
				} else {
					got, err = collect(sb.Decode(bytes.NewReader(enc)))
				}
				return nil
			})
			rep.Evaluations++
			rep.count("api:huge-blob")
			desc := fmt.Sprintf("kind %d payload of %d bytes followed by two more tokens (compare decoder: %v)", k, n, cmp)
			if e != nil || err != nil || !tokensExactEq(got, ts) {
				l := -1
				if len(got) > 0 {
					if b, ok := got[0].Value.([]byte); ok {
						l = len(b)
					}
				}
				what := fmt.Sprintf("decoded %d tokens (%v %v), first payload %d bytes; expected the blob of %d bytes and the two tokens behind it", len(got), err, e, l, n)
				rep.violate("C02", "roundtrip", what, desc)
				rep.violate("C04", "read-ahead", what, desc)
				rep.violate("C01", "codec-roundtrip", what, desc)
			}
		}
	}
}

// ---- C15: a sink that reports its fault TOGETHER WITH a continuation: the error ends the run, nothing is
// delivered to anybody afterwards, whatever the position of the sink ----
func apiSinkFaultWithCont(rep *Report) {
	for n := 1; n <= 4; n++ {
		ts := make([]sb.Token, n)
		for i := range ts {
			ts[i] = tokI(i)
		}
		for nsinks := 1; nsinks <= 3; nsinks++ {
			for pos := 0; pos < nsinks; pos++ {
				for k := 1; k <= n+1; k++ { // the k-th call fails (n+1: the end-of-stream call)
					for _, keep := range []bool{true, false} {
						calls := make([]int, nsinks)
						after := 0
						failed := false
						sinks := make([]sb.Sink, nsinks)
						for i := range sinks {
							i := i
							var s sb.Sink
							s = func(t *sb.Token) (sb.Sink, error) {
								if failed {
									after++
								}
								calls[i]++
								if i == pos && calls[i] == k {
									failed = true
									if keep {
										return s, errInjected
									}
									return nil, errInjected
								}
								if t.Invalid() {
									return nil, nil
								}
								return s, nil
							}
							sinks[i] = s
						}
						err := guard(func() error { return sb.Copy(tokensFrom(ts), sinks...) })
						rep.Evaluations++
						rep.count("api:sink-fault-with-continuation")
						if classOf(err) != "EFault" || after != 0 {
							desc := fmt.Sprintf("%d tokens, %d sinks, sink %d fails at its call %d returning (continuation=%v, error)", n, nsinks, pos, k, keep)
							rep.violate("C15", "sink-fault-lost", fmt.Sprintf("Copy returned %v and made %d further sink calls after the fault", err, after), desc)
							rep.violate("C14", "delivery", fmt.Sprintf("Copy returned %v and made %d further sink calls after the fault", err, after), desc)
						}
					}
				}
			}
		}
	}
}

// ---- C19: several goroutines registering the SAME not yet registered type at the start of their pipelines:
// whichever wins, every one of them then marshals values of the type with its name and reads them back as the
// type (the registration is replayed many times through the VerifUnregister hook) ----
type RaceReg struct {
	A int
	B string
}

func apiRegistrationRace(rep *Report, rounds int) {
	t := reflect.TypeOf(RaceReg{})
	name := refTypeName(t)
	old := runtime.GOMAXPROCS(4)
	defer runtime.GOMAXPROCS(old)
	bad := 0
	var firstBad string
	for round := 0; round < rounds && bad < 3; round++ {
		sb.VerifUnregister(t)
		const G = 3
		var wg sync.WaitGroup
		start := make(chan struct{})
		res := make([]string, G)
		for g := 0; g < G; g++ {
			wg.Add(1)
			go func(g int) {
				defer wg.Done()
				<-start
				sb.Register(t)
				v := RaceReg{A: g, B: "x"}
				ts, err := marshalTokens(&v, nil)
				if err != nil || len(ts) == 0 || ts[0].Kind != sb.KindTypeName || ts[0].Value != name {
					res[g] = fmt.Sprintf("after its own Register the goroutine marshals [%s] (%v): no type name", descTokens(ts), err)
					return
				}
				var back any
				if e := guard(func() error { return sb.Copy(tokensFrom(ts), sb.Unmarshal(&back)) }); e != nil || reflect.TypeOf(back) != t {
					res[g] = fmt.Sprintf("after its own Register the goroutine reads its value back as %T (%v), not as %v", back, e, t)
				}
			}(g)
		}
		close(start)
		wg.Wait()
		for _, s := range res {
			if s != "" {
				bad++
				if firstBad == "" {
					firstBad = fmt.Sprintf("round %d: %s", round, s)
				}
			}
		}
	}
	rep.Evaluations += rounds
	rep.count("api:registration-race-rounds")
	sb.Register(t)
	if bad > 0 {
		rep.violate("C19", "concurrent-result-differs", firstBad, fmt.Sprintf("%d rounds of 3 goroutines registering main.RaceReg concurrently and then using it", rounds))
	}
}

// ---- odds and ends of the exported surface ----
type regText struct{ N int }

func (l regText) MarshalText() ([]byte, error) { return []byte(fmt.Sprintf("rt:%d", l.N)), nil }
func (l *regText) UnmarshalText(bs []byte) error {
	_, err := fmt.Sscanf(string(bs), "rt:%d", &l.N)
	return err
}

func apiOddsAndEnds(repM, repU *Report) {
	// a target that is neither a pointer nor a func
	for _, tgt := range []any{5, "s", struct{ A int }{}, []int{1}} {
		e := guard(func() error { return copyBudget(tokensFrom([]sb.Token{tokI(1)}), sb.Unmarshal(tgt)) })
		repU.Evaluations++
		if classOf(e) != "EBadTarget" || !isUnmarshalError(e) {
			repU.violate("C05", "bad-target-accepted", fmt.Sprintf("a %T (not a pointer) as Unmarshal target: %v, expected a BadTargetType unmarshal error", tgt, e), fmt.Sprintf("target %T", tgt))
		}
	}
	// UnmarshalFunc and a pointer to an SBUnmarshaler interface as targets
	{
		var got []sb.Token
		uf := sb.UnmarshalFunc(func(ctx sb.Ctx, cont sb.Sink) sb.Sink {
			return func(t *sb.Token) (sb.Sink, error) {
				got = append(got, *t)
				return cont, nil
			}
		})
		type holder struct {
			A int
			F sb.UnmarshalFunc
			B string
		}
		h := holder{F: uf}
		ts := []sb.Token{tokK(sb.KindObject), tokS("A"), tokI(1), tokS("F"), tokS("for the func"), tokS("B"), tokS("b"), tokK(sb.KindObjectEnd)}
		e := guard(func() error { return copyBudget(tokensFrom(ts), sb.Unmarshal(&h)) })
		repU.Evaluations++
		if e != nil || h.A != 1 || h.B != "b" || len(got) != 1 || got[0].Value != "for the func" {
			repU.violate("C05", "unmarshal-func-target", fmt.Sprintf("an UnmarshalFunc field: %v, value %+v, the func saw [%s]", e, h.A, descTokens(got)), "UnmarshalFunc as a field")
		}
		var tup sb.Tuple
		var su sb.SBUnmarshaler = &tup
		e = guard(func() error {
			return copyBudget(tokensFrom([]sb.Token{tokK(sb.KindTuple), tokI(4), tokK(sb.KindTupleEnd)}), sb.Unmarshal(&su))
		})
		repU.Evaluations++
		if e != nil || len(tup) != 1 || tup[0] != any(4) {
			repU.violate("C05", "unmarshal-func-target", fmt.Sprintf("a *SBUnmarshaler target holding a *Tuple: %v, tuple %v", e, tup), "*SBUnmarshaler target")
		}
	}
	// a REGISTERED type bridged through Text marshalling: its name travels, a concrete target skips it, `any` resurrects it
	{
		t := reflect.TypeOf(regText{})
		sb.Register(t)
		v := regText{41}
		ts, err := marshalTokens(v, nil)
		repM.Evaluations++
		want := []sb.Token{{Kind: sb.KindTypeName, Value: refTypeName(t)}, tokS("rt:41")}
		if err != nil || !tokensExactEq(ts, want) {
			repM.violate("C08", "registered-not-prefixed", fmt.Sprintf("a registered TextMarshaler marshals to [%s] (%v), expected [%s]", descTokens(ts), err, descTokens(want)), "registered text type")
		}
		var back regText
		e := guard(func() error { return copyBudget(tokensFrom(want), sb.Unmarshal(&back)) })
		var x any
		e2 := guard(func() error { return copyBudget(tokensFrom(want), sb.Unmarshal(&x)) })
		repU.Evaluations += 2
		if e != nil || back != v {
			repU.violate("C01", "roundtrip-error", fmt.Sprintf("a registered TextUnmarshaler target: %v, got %+v", e, back), "registered text type")
		}
		if e2 != nil || x != any(v) {
			repU.violate("C11", "registered-name-not-resurrected", fmt.Sprintf("a registered text type into any: %T %v (%v)", x, x, e2), "registered text type")
		}
	}
	// unnamed types have no type name (and cannot be registered)
	for _, t := range []reflect.Type{reflect.TypeOf([]int(nil)), reflect.TypeOf(map[string]int(nil)), reflect.TypeOf(struct{ A int }{}), reflect.TypeOf((*[]int)(nil)), reflect.TypeOf((**struct{})(nil))} {
		repM.Evaluations++
		if n := sb.TypeName(t); n != "" {
			repM.violate("C08", "type-name-wrong", fmt.Sprintf("TypeName(%v) = %q, an unnamed type has no name", t, n), "unnamed type")
		}
		if !mustAgree(func() { sb.Register(t) }) {
			repM.violate("C11", "registered-name-not-resurrected", fmt.Sprintf("Register(%v) accepted a type without a name", t), "unnamed type")
		}
	}
	// the Must* wrappers of the stream helpers
	{
		ts := []sb.Token{tokK(sb.KindArray), tokI(1), tokK(sb.KindArrayEnd)}
		var got sb.Tokens
		p1 := mustAgree(func() { got = sb.MustTokensFromStream(tokensFrom(ts)) })
		p2 := mustAgree(func() { sb.MustTokensFromStream(faultyAt(ts, 1)) })
		var tr *sb.Tree
		p3 := mustAgree(func() { tr = sb.MustTreeFromStream(tokensFrom(ts)) })
		p4 := mustAgree(func() { sb.MustTreeFromStream(tokensFrom(append(append([]sb.Token{}, ts...), tokI(2)))) })
		repU.Evaluations += 4
		var it []sb.Token
		if tr != nil {
			it, _ = collect(tr.Iter())
		}
		if p1 || !p2 || p3 || !p4 || !tokensExactEq(got, ts) || !tokensExactEq(it, ts) {
			repU.violate("C12", "must-wrapper-differs", fmt.Sprintf("MustTokensFromStream / MustTreeFromStream: panicked %v %v %v %v (expected false true false true); tokens [%s]; tree [%s]", p1, p2, p3, p4, descTokens(got), descTokens(it)), "Must* wrappers")
			repU.violate("C14", "must-wrapper-differs", fmt.Sprintf("MustTokensFromStream / MustTreeFromStream: panicked %v %v %v %v (expected false true false true)", p1, p2, p3, p4), "Must* wrappers")
		}
	}
}

// ---- round 6 ----

// a long stream through every reader flavour (many reads that return no data and no error accumulate)
func apiLongStreamReaders(rep *Report, r *rand.Rand) {
	var ts []sb.Token
	for i := 0; i < 1500; i++ {
		switch i % 5 {
		case 0:
			ts = append(ts, tokI(i))
		case 1:
			ts = append(ts, tokS(string(payload(r, i%9))))
		case 2:
			ts = append(ts, tokK(sb.KindNil))
		case 3:
			ts = append(ts, sb.Token{Kind: sb.KindBytes, Value: payload(r, i%7)})
		default:
			ts = append(ts, sb.Token{Kind: sb.KindUint8, Value: uint8(i)})
		}
	}
	enc := runEncode(ts, 0, 0).bytes
	for fl := range readerFlavours {
		for _, cmp := range []bool{false, true} {
			o := runDecode(enc, cmp, fl, false, r)
			rep.Evaluations++
			rep.count("api:long-stream-readers")
			want := len(ts)
			ok := o.err == nil
			if !cmp {
				ok = ok && tokensExactEq(o.toks, ts)
			} else {
				ok = ok && len(o.toks) >= want
			}
			if !ok {
				what := fmt.Sprintf("a valid stream of %d tokens (%d bytes) read through %q (compare decoder: %v): %d tokens, %v", len(ts), len(enc), readerFlavours[fl], cmp, len(o.toks), o.err)
				rep.violate("C02", "roundtrip", what, "long stream")
				rep.violate("C04", "reader-flavour-dependent", what, "long stream")
				rep.violate("C07", "segmented-route-reader-dependent", what, "long stream")
			}
		}
	}
}

// NaN map keys behind an interface-typed key or a pointer key; cycles reached through a map KEY
type keyNode struct {
	Next *keyNode
	M    map[*keyNode]int
	A    map[any]int
}

func apiKeysNaNAndCycles(rep *Report, props ...string) {
	nan := math.NaN()
	nan32 := float32(math.NaN())
	for name, v := range map[string]any{
		"map[any]int{NaN: 1}":                map[any]int{nan: 1},
		"map[any]int{float32(NaN): 1}":       map[any]int{nan32: 1},
		"map[any]int{NaN: 1, NaN: 2}":        map[any]int{nan: 1, math.Float64frombits(0x7ff8000000000002): 2},
		"map[*float64]int{&NaN: 1}":          map[*float64]int{&nan: 1},
		"map[any]int{&NaN: 1}":               map[any]int{&nan: 1},
		"map[[1]any]int{{NaN}: 1}":           map[[1]any]int{{nan}: 1},
		"struct{M map[any]string}{{NaN: x}}": struct{ M map[any]string }{map[any]string{nan: "x"}},
		"[]any{map[any]any{NaN: nil}}":       []any{map[any]any{nan: nil}},
	} {
		_, err := marshalTokens(v, nil)
		rep.Evaluations++
		rep.count("api:nan-keys")
		// (a key whose stream is the single NaN token is rejected; a NaN inside a composite key is not such a key)
		single := !strings.Contains(name, "[1]any")
		if single && (classOf(err) != "EBadMapKey" || !errorsIs(err, sb.MarshalError)) {
			for _, p := range props {
				if p == "C08" {
					rep.violate(p, "bad-key-accepted", fmt.Sprintf("a map with a NaN key marshals with %v, expected a BadMapKey marshal error", err), name)
				}
			}
		}
	}
	// cycles through keys
	n1 := &keyNode{}
	n1.M = map[*keyNode]int{n1: 1}
	n2 := &keyNode{}
	n2.A = map[any]int{n2: 1}
	n3 := &keyNode{}
	n3.Next = &keyNode{M: map[*keyNode]int{n3: 1}}
	type sk struct{ P *keyNode }
	n4 := &keyNode{}
	n4.A = map[any]int{sk{n4}: 1}
	for name, v := range map[string]any{"a node whose map[*node] key is the node": n1, "a node whose map[any] key is the node": n2, "a key two steps down points back to the root": n3, "a struct key holding a pointer back": n4} {
		var err error
		var leaked int
		e := withWatchdog(10*time.Second, &leaked, func() error { _, err = marshalTokens(v, nil); return nil })
		rep.Evaluations++
		rep.count("api:key-cycles")
		if e != nil || classOf(err) != "ECyclic" || !errorsIs(err, sb.MarshalError) {
			for _, p := range props {
				if p == "C18" {
					rep.violate(p, "cycle-not-reported", fmt.Sprintf("a cycle reached through a map key: Marshal returned %v (%v), expected a CyclicPointer marshal error", err, e), name)
				}
			}
		}
	}
}

// exported field names outside ASCII are identifiers too
type UniFields struct {
	Größe int
	Δt    float64
	Ω     string
	Ärger []int
	A1_b  bool
}

func apiUnicodeFieldNames(repM, repU *Report) {
	v := UniFields{Größe: 3, Δt: 1.5, Ω: "o", Ärger: []int{1}, A1_b: true}
	for _, x := range []any{v, []any{v}, map[string]any{"k": v}} {
		ts, err := marshalTokens(x, nil)
		if err != nil {
			continue
		}
		var back any
		e := guard(func() error { return copyBudget(tokensFrom(ts), sb.Unmarshal(&back)) })
		repU.Evaluations++
		repU.count("api:unicode-field-names")
		desc := fmt.Sprintf("an object with exported non-ASCII field names: [%s]", truncate(descTokens(ts), 300))
		if e != nil {
			repU.violate("C11", "any-rejects-in-domain", fmt.Sprintf("rejected: %v", e), desc)
			repU.violate("C01", "roundtrip-error", fmt.Sprintf("a struct with non-ASCII exported field names held in an interface position is rejected: %v", e), desc)
			continue
		}
		if re, e2 := marshalTokens(back, nil); e2 != nil || !tokensExactEq(re, ts) {
			repU.violate("C11", "any-not-lossless", fmt.Sprintf("re-marshalling gives [%s] (%v)", truncate(descTokens(re), 300), e2), desc)
		}
	}
	var back UniFields
	ts, _ := marshalTokens(v, nil)
	nnames := 0
	for _, t := range ts {
		if s, ok := t.Value.(string); ok && t.Kind == sb.KindString && (s == "Größe" || s == "Δt" || s == "Ω" || s == "Ärger" || s == "A1_b") {
			nnames++
		}
	}
	if nnames != 5 {
		repM.violate("C08", "exported-field-omitted", fmt.Sprintf("a struct with five exported fields (four non-ASCII names) marshals to [%s]", truncate(descTokens(ts), 300)), "UniFields")
		repU.violate("C01", "roundtrip-not-equivalent", fmt.Sprintf("a struct with five exported fields (four non-ASCII names) marshals to [%s]", truncate(descTokens(ts), 300)), "UniFields")
	}
	if e := guard(func() error { return copyBudget(tokensFrom(ts), sb.Unmarshal(&back)) }); e != nil || !reflect.DeepEqual(back, v) {
		repU.violate("C01", "roundtrip-error", fmt.Sprintf("a struct with non-ASCII field names does not round-trip: %v %+v", e, back), "UniFields")
	}
	// names that are NOT exported identifiers are still rejected by the schema-less target
	for _, name := range []string{"größe", "1A", "A-b", "", "Ω x", "_A"} {
		var x any
		e := guard(func() error {
			return copyBudget(tokensFrom([]sb.Token{tokK(sb.KindObject), tokS(name), tokI(1), tokK(sb.KindObjectEnd)}), sb.Unmarshal(&x))
		})
		repU.Evaluations++
		if classOf(e) != "EBadField" {
			repU.violate("C11", "bad-field-name-accepted", fmt.Sprintf("the field name %q into any: %v, expected BadFieldName", name, e), "field name "+name)
		}
	}
}

// ---- C15: a fault whose cause is (or wraps) io.EOF still is a fault when it passes through IterStream / Deref ----
func apiEOFWrappedFaults(rep *Report) {
	valid := runEncode([]sb.Token{tokK(sb.KindArray), tokS("a string of some length"), tokI(5), {Kind: sb.KindBytes, Value: []byte("blob")}, tokK(sb.KindArrayEnd)}, 0, 0).bytes
	wrapEOF := fmt.Errorf("verif: transport closed: %w", io.EOF)
	for cut := 1; cut < len(valid); cut++ {
		direct, dErr := collect(sb.Decode(bytes.NewReader(valid[:cut])))
		if dErr == nil {
			continue // a cut between two tokens is a clean end
		}
		p := sb.IterStream(sb.Decode(bytes.NewReader(valid[:cut])), nil)
		got, err := collect(&p)
		rep.Evaluations++
		rep.count("api:eof-wrapped-faults")
		if err == nil || classOf(err) != classOf(dErr) || !tokensExactEq(got, direct) {
			rep.violate("C15", "stream-fault-lost", fmt.Sprintf("Decode of an input cut at byte %d fails with %v after %d tokens; through IterStream: %v after %d tokens", cut, dErr, len(direct), err, len(got)), fmt.Sprintf("IterStream(Decode(%x))", valid[:cut]))
			rep.violate("C13", "combinator-not-transparent", fmt.Sprintf("IterStream changes the outcome of a failing source: %v vs %v", dErr, err), fmt.Sprintf("IterStream(Decode(%x))", valid[:cut]))
		}
	}
	// a source failing with a cause that wraps io.EOF, at every position, through IterStream, Marshal(IterStream) and Deref
	ts := []sb.Token{tokK(sb.KindArray), tokI(1), tokS("x"), tokK(sb.KindArrayEnd)}
	for at := 0; at <= len(ts); at++ {
		mk := func() sb.Stream {
			i := 0
			var p sb.Proc
			p = func(t *sb.Token) (sb.Proc, error) {
				if i == at {
					return nil, wrapEOF
				}
				if i >= len(ts) {
					return nil, nil
				}
				*t = ts[i]
				i++
				return p, nil
			}
			return &p
		}
		it := sb.IterStream(mk(), nil)
		_, e1 := collect(&it)
		_, e2 := collect(sb.Deref(tokensFrom([]sb.Token{{Kind: sb.KindRef, Value: []byte("h")}}), func(h []byte) (sb.Stream, error) { return mk(), nil }))
		rep.Evaluations += 2
		if !errorsIs(e1, wrapEOF) || !errorsIs(e2, wrapEOF) {
			rep.violate("C15", "stream-fault-lost", fmt.Sprintf("a source failing at token %d with a cause wrapping io.EOF: IterStream returns %v, Deref of a reference resolved to it returns %v", at, e1, e2), "failing source with an io.EOF-wrapping cause")
		}
	}
}

// ---- feature combinations ----

// tapping does not change the stream, whatever options and base path the context carries; the paths a tap sees under
// a base path are the paths seen without it, prefixed (the unmp_shift / taps_extend_root theorems on the code)
func apiTapWithOptions(repM, repU *Report, r *rand.Rand, t reflect.Type, v reflect.Value, desc string) {
	if usesEmbeddedOrRecursive(t) || hasBadMapKey(v) || hasTiedKeys(v) {
		return
	}
	opts := sb.Ctx{SkipEmptyStructFields: r.Intn(2) == 0, IgnoreFuncs: r.Intn(3) == 0}
	base := sb.Path{"root", 3}
	plainCtx := opts
	plainCtx.Marshal = sb.MarshalValue
	want, e0 := collectN(sb.MarshalCtx(plainCtx, v.Interface()), 200000)
	var p0, p1 []string
	got0, e1 := collectN(sb.TapMarshal(opts, v.Interface(), func(c sb.Ctx, _ reflect.Value) { p0 = append(p0, c.Path.String()) }), 200000)
	withBase := opts
	withBase.Path = append(sb.Path{}, base...)
	got1, e2 := collectN(sb.TapMarshal(withBase, v.Interface(), func(c sb.Ctx, _ reflect.Value) { p1 = append(p1, c.Path.String()) }), 200000)
	repM.Evaluations += 3
	repM.count("api:tap-with-options")
	d := fmt.Sprintf("options skipEmpty=%v ignoreFuncs=%v: %s", opts.SkipEmptyStructFields, opts.IgnoreFuncs, desc)
	if e0 != nil || e1 != nil || e2 != nil {
		if (e0 == nil) != (e1 == nil) || (e0 == nil) != (e2 == nil) {
			repM.violate("C17", "tap-changes-stream", fmt.Sprintf("MarshalCtx: %v, TapMarshal: %v, TapMarshal under a base path: %v", e0, e1, e2), d)
		}
		return
	}
	if !tokensExactEq(want, got0) || !tokensExactEq(want, got1) {
		repM.violate("C17", "tap-changes-stream", fmt.Sprintf("MarshalCtx gives [%s], TapMarshal [%s], TapMarshal under a base path [%s]", truncate(descTokens(want), 200), truncate(descTokens(got0), 200), truncate(descTokens(got1), 200)), d)
		repM.violate("C08", "tap-changes-stream", "a tapped marshal yields a different stream than an untapped one under the same options", d)
		return
	}
	ok := len(p0) == len(p1)
	for i := 0; ok && i < len(p0); i++ {
		if p1[i] != base.String()+p0[i] {
			ok = false
		}
	}
	if !ok {
		repM.violate("C17", "marshal-tap-path", fmt.Sprintf("paths under the base path %s are not the paths without it, prefixed: %v vs %v", base.String(), truncate(fmt.Sprint(p1), 300), truncate(fmt.Sprint(p0), 300)), d)
	}
	// the unmarshal side: strict / default, with and without a base path, against the untapped run
	ts := want
	if opts.SkipEmptyStructFields || opts.IgnoreFuncs || len(ts) == 0 || len(ts) > 300 {
		return
	}
	strict := r.Intn(2) == 0
	uctx := sb.Ctx{DisallowUnknownStructFields: strict}
	plainU := uctx
	plainU.Unmarshal = sb.UnmarshalValue
	a := reflect.New(t)
	ea := guard(func() error { return copyBudget(tokensFrom(ts), sb.UnmarshalValue(plainU, a, nil)) })
	var q0, q1 []string
	b0 := reflect.New(t)
	eb0 := guard(func() error {
		return copyBudget(tokensFrom(ts), sb.TapUnmarshal(uctx, b0.Interface(), func(c sb.Ctx, _ sb.Token, _ reflect.Value) { q0 = append(q0, c.Path.String()) }))
	})
	ub := uctx
	ub.Path = append(sb.Path{}, base...)
	b1 := reflect.New(t)
	eb1 := guard(func() error {
		return copyBudget(tokensFrom(ts), sb.TapUnmarshal(ub, b1.Interface(), func(c sb.Ctx, _ sb.Token, _ reflect.Value) { q1 = append(q1, c.Path.String()) }))
	})
	repU.Evaluations += 3
	if classOf(ea) != classOf(eb0) || classOf(ea) != classOf(eb1) || (ea == nil && (!selfEqualOrEquiv(a.Elem(), b0.Elem()) || !selfEqualOrEquiv(a.Elem(), b1.Elem()))) {
		repU.violate("C05", "tap-changes-outcome", fmt.Sprintf("UnmarshalValue (strict=%v): %v; TapUnmarshal: %v; TapUnmarshal under a base path: %v", strict, ea, eb0, eb1), d)
		repU.violate("C17", "tap-changes-outcome", fmt.Sprintf("UnmarshalValue (strict=%v): %v; TapUnmarshal: %v; TapUnmarshal under a base path: %v", strict, ea, eb0, eb1), d)
		return
	}
	ok = len(q0) == len(q1)
	for i := 0; ok && i < len(q0); i++ {
		if q1[i] != base.String()+q0[i] {
			ok = false
		}
	}
	if !ok {
		repU.violate("C17", "unmarshal-tap-path", fmt.Sprintf("paths under the base path %s are not the paths without it, prefixed: %v vs %v", base.String(), truncate(fmt.Sprint(q1), 300), truncate(fmt.Sprint(q0), 300)), d)
	}
}

// every producer keeps reporting the end once it has ended; several values through one Encode sink by Sink.Marshal
func apiEndedStreamsAndSinkMarshal(rep *Report, r *rand.Rand) {
	v := struct {
		A int
		B []string
		C map[string]int
	}{3, []string{"x", "y"}, map[string]int{"k": 1}}
	ts, _ := marshalTokens(v, nil)
	enc := runEncode(ts, 0, 0).bytes
	tr, _ := sb.TreeFromStream(tokensFrom(ts))
	prods := map[string]func() sb.Stream{
		"Marshal":          func() sb.Stream { return sb.Marshal(v) },
		"Tokens.Iter":      func() sb.Stream { return tokensFrom(ts) },
		"Decode":           func() sb.Stream { return sb.Decode(bytes.NewReader(enc)) },
		"DecodeForCompare": func() sb.Stream { return sb.DecodeForCompare(bytes.NewReader(enc)) },
		"DecodeJson":       func() sb.Stream { return sb.DecodeJson(strings.NewReader(`{"A":3,"B":["x"]}`), nil) },
		"Tree.Iter":        func() sb.Stream { return tr.Iter() },
		"Tee":              func() sb.Stream { return sb.Tee(tokensFrom(ts), sb.Discard) },
		"ConcatStreams":    func() sb.Stream { return sb.ConcatStreams(tokensFrom(ts[:2]), tokensFrom(ts[2:])) },
		"FilterProc":       func() sb.Stream { return sb.FilterProc(tokensFrom(ts), func(*sb.Token) bool { return true }) },
		"Deref":            func() sb.Stream { return sb.Deref(tokensFrom(ts), func([]byte) (sb.Stream, error) { return nil, nil }) },
	}
	for name, mk := range prods {
		s := mk()
		first, err := collect(s)
		extra := 0
		var e2 error
		for i := 0; i < 3 && e2 == nil; i++ {
			var t sb.Token
			e2 = guard(func() error { return s.Next(&t) })
			if t.Valid() {
				extra++
			}
		}
		rep.Evaluations++
		rep.count("api:ended-streams")
		if err != nil || e2 != nil || extra != 0 {
			rep.violate("C13", "combinator-not-transparent", fmt.Sprintf("%s: after the end of the stream (%d tokens, %v) three more pulls gave %d tokens and %v", name, len(first), err, extra, e2), "pulling an ended stream: "+name)
			rep.violate("C14", "delivery", fmt.Sprintf("%s: after the end of the stream (%d tokens, %v) three more pulls gave %d tokens and %v", name, len(first), err, extra, e2), "pulling an ended stream: "+name)
		}
	}
	// Sink.Marshal chains
	for fl := range writerFlavours {
		w, cw := mkWriter(fl, 0)
		vals := []any{1, "two", []int{3, 4}, map[string]bool{"k": true}, v, nil, 5.5}
		var want []byte
		sink := sb.Encode(w)
		var err error
		for _, x := range vals {
			xs, _ := marshalTokens(x, nil)
			want = append(want, runEncode(xs, 0, 0).bytes...)
			if sink, err = sink.Marshal(x); err != nil {
				break
			}
		}
		rep.Evaluations++
		if err != nil || !bytes.Equal(cw.buf.Bytes(), want) {
			what := fmt.Sprintf("Encode(w).Marshal(v1).Marshal(v2)... over %q wrote %d bytes (%v), the values' encodings have %d", writerFlavours[fl], cw.buf.Len(), err, len(want))
			rep.violate("C03", "encode-holds-back-bytes", what, "Sink.Marshal chain")
			rep.violate("C02", "encode-holds-back-bytes", what, "Sink.Marshal chain")
			rep.violate("C14", "delivery", what, "Sink.Marshal chain")
		}
		// and read back value by value from one decoder
		dec := sb.Decode(bytes.NewReader(cw.buf.Bytes()))
		for i, x := range vals {
			var toks sb.Tokens
			e := guard(func() error { return sb.Copy(dec, sb.CollectValueTokens(&toks)) })
			xs, _ := marshalTokens(x, nil)
			if e != nil || !tokensExactEq(toks, xs) {
				rep.violate("C02", "roundtrip", fmt.Sprintf("value %d of a Sink.Marshal chain read back with CollectValueTokens: [%s] (%v), expected [%s]", i, descTokens(toks), e, descTokens(xs)), "Sink.Marshal chain")
				rep.violate("C14", "collect-value", fmt.Sprintf("value %d of a Sink.Marshal chain read back with CollectValueTokens: [%s] (%v), expected [%s]", i, descTokens(toks), e, descTokens(xs)), "Sink.Marshal chain")
				break
			}
		}
	}
}

// ---- round 7: state carried by sink / token / tree VALUES, option builders ----

// EncodedLen and Hash driven by hand with ONE reused Token variable: the count is right after every token, the digest
// is the digest of the stream
func apiHandDrivenSinks(rep *Report, ts []sb.Token, full []byte, desc string) {
	if len(ts) == 0 || len(full) > 100000 {
		return
	}
	n := 0
	var bad string
	err := guard(func() error {
		sink := sb.EncodedLen(&n, nil)
		var tok sb.Token // one variable for the whole walk
		sofar := 0
		for i := range ts {
			tok = ts[i]
			var e error
			sink, e = sink(&tok)
			if e != nil {
				return e
			}
			sofar += len(runEncode(ts[i:i+1], 0, 0).bytes)
			if n != sofar {
				bad = fmt.Sprintf("after token %d EncodedLen's target holds %d, the encoding so far has %d bytes", i, n, sofar)
				return nil
			}
		}
		return nil
	})
	rep.Evaluations++
	rep.count("api:hand-driven-sinks")
	if err != nil || bad != "" {
		rep.violate("C02", "encoded-len", fmt.Sprintf("EncodedLen driven token by token (as Sink.Marshal and a Tee do): %s %v", bad, err), desc)
	}
}

func apiHandDrivenHash(rep *Report, ts []sb.Token, f hashFn, want []byte, desc string) {
	var sum []byte
	err := guard(func() error {
		sink := sb.Hash(f.new, &sum, nil)
		var tok sb.Token // one variable for the whole walk: a sink may not keep the pointer
		for i := 0; i <= len(ts) && sink != nil; i++ {
			if i < len(ts) {
				tok = ts[i]
			} else {
				tok = sb.Token{}
			}
			var e error
			sink, e = sink(&tok)
			if e != nil {
				return e
			}
		}
		return nil
	})
	rep.Evaluations++
	rep.count("api:hand-driven-hash")
	if err != nil || !bytes.Equal(sum, want) {
		rep.violate("C09", "sink-hash-not-merkle", fmt.Sprintf("a Hash sink driven by a loop that reuses one Token variable gives %x (%v), the stream hashes to %x", sum, err, want), desc)
		rep.violate("C10", "substitution-changes-hash", fmt.Sprintf("a Hash sink driven by a loop that reuses one Token variable gives %x (%v), the stream hashes to %x", sum, err, want), desc)
	}
}

// a CollectTokens sink value used for one stream after another, the caller emptying the target in between
func apiCollectorReuse(rep *Report, r *rand.Rand) {
	var toks sb.Tokens
	sink := sb.CollectTokens(&toks)
	for i := 0; i < 6; i++ {
		ts := smallTokens(r, 1+r.Intn(6))
		toks = toks[:0]
		err := guard(func() error { return sb.Copy(tokensFrom(ts), sink) })
		rep.Evaluations++
		rep.count("api:collector-reuse")
		if err != nil || !tokensExactEq(toks, ts) {
			rep.violate("C14", "delivery", fmt.Sprintf("a CollectTokens sink used for its stream number %d (target emptied before): collected [%s] (%v), the stream is [%s]", i+1, descTokens(toks), err, descTokens(ts)), "CollectTokens sink reused")
			return
		}
	}
	// two collectors made up-front for one target, fed one after the other: the target holds both streams
	var both sb.Tokens
	s1, s2 := sb.CollectTokens(&both), sb.CollectTokens(&both)
	a, b := smallTokens(r, 3), smallTokens(r, 2)
	e1 := guard(func() error { return sb.Copy(tokensFrom(a), s1) })
	e2 := guard(func() error { return sb.Copy(tokensFrom(b), s2) })
	if e1 != nil || e2 != nil || !tokensExactEq(both, append(append([]sb.Token{}, a...), b...)) {
		rep.violate("C14", "delivery", fmt.Sprintf("two collectors on one target collected [%s] (%v %v), expected [%s] then [%s]", descTokens(both), e1, e2, descTokens(a), descTokens(b)), "two CollectTokens sinks on one target")
	}
}

// the option builders compose: every way of writing the same options gives the same behaviour
func apiCtxBuilders(repM, repU *Report) {
	type T struct {
		A int
		B string
		C []int
	}
	v := T{A: 0, B: "b"}
	ctxs := map[string]sb.Ctx{
		"Ctx{SkipEmpty: true}.Strict()":               sb.Ctx{SkipEmptyStructFields: true}.Strict(),
		"Ctx{Strict: true}.SkipEmpty()":               sb.Ctx{DisallowUnknownStructFields: true}.SkipEmpty(),
		"Ctx{}.SkipEmpty().Strict()":                  sb.Ctx{}.SkipEmpty().Strict(),
		"DefaultCtx.Strict().SkipEmpty()":             sb.DefaultCtx.Strict().SkipEmpty(),
		"Ctx{SkipEmpty: true, Strict: true}":          {SkipEmptyStructFields: true, DisallowUnknownStructFields: true},
		"Ctx{IgnoreFuncs: true}.SkipEmpty().Strict()": sb.Ctx{IgnoreFuncs: true}.SkipEmpty().Strict(),
		"DefaultCtx.WithPath(x).SkipEmpty().Strict()": sb.DefaultCtx.WithPath("x").SkipEmpty().Strict(),
	}
	want := []sb.Token{tokK(sb.KindObject), tokS("B"), tokS("b"), tokK(sb.KindObjectEnd)}
	unknown := []sb.Token{tokK(sb.KindObject), tokS("B"), tokS("b"), tokS("Zzz"), tokI(1), tokK(sb.KindObjectEnd)}
	for name, c := range ctxs {
		mc := c
		if mc.Marshal == nil {
			mc.Marshal = sb.MarshalValue
		}
		ts, err := collectN(sb.MarshalCtx(mc, v), 1000)
		repM.Evaluations++
		repM.count("api:ctx-builders")
		if err != nil || !tokensExactEq(ts, want) {
			repM.violate("C16", "skip-empty-lost", fmt.Sprintf("marshalling under %s gives [%s] (%v), the empty fields A and C must be omitted: [%s]", name, descTokens(ts), err, descTokens(want)), name)
		}
		uc := c
		uc.Unmarshal = sb.UnmarshalValue
		var back T
		e := guard(func() error {
			return copyBudget(tokensFrom(unknown), sb.UnmarshalValue(uc, reflect.ValueOf(&back), nil))
		})
		repU.Evaluations++
		if classOf(e) != "EUnknownField" {
			repU.violate("C16", "strict-unknown-accepted", fmt.Sprintf("unmarshalling an object with an unknown field under %s: %v, the strict option must reject it", name, e), name)
		}
	}
	// each option alone, built either way
	for name, c := range map[string]sb.Ctx{"Ctx{}.SkipEmpty()": sb.Ctx{}.SkipEmpty(), "DefaultCtx.SkipEmpty()": sb.DefaultCtx.SkipEmpty(), "Ctx{IgnoreFuncs: true}.SkipEmpty()": sb.Ctx{IgnoreFuncs: true}.SkipEmpty()} {
		mc := c
		if mc.Marshal == nil {
			mc.Marshal = sb.MarshalValue
		}
		ts, err := collectN(sb.MarshalCtx(mc, v), 1000)
		if err != nil || !tokensExactEq(ts, want) {
			repM.violate("C16", "skip-empty-lost", fmt.Sprintf("marshalling under %s gives [%s] (%v)", name, descTokens(ts), err), name)
		}
		uc := c
		uc.Unmarshal = sb.UnmarshalValue
		var back T
		if e := guard(func() error {
			return copyBudget(tokensFrom(unknown), sb.UnmarshalValue(uc, reflect.ValueOf(&back), nil))
		}); e != nil {
			repU.violate("C16", "unknown-field-not-skipped", fmt.Sprintf("without the strict option (%s) an unknown field must be skipped: %v", name, e), name)
		}
	}
}

// cycles that pass through a Tuple / an SBMarshaler on every round; trees edited in place
type tupNode struct {
	T sb.Tuple
	N *tupNode
}

func apiCyclesThroughMarshalers(rep *Report) {
	a := &tupNode{}
	a.T = sb.Tuple{a}
	b := &tupNode{}
	b.N = &tupNode{T: sb.Tuple{1, b}}
	// (a user-written MarshalSB that marshals a pointer to its own receiver never passes through the library's
	// pointer handling - the hook is taken first - so the library cannot see that cycle: outside C18)
	var boxed any
	boxed = sb.Tuple{&boxed}
	for name, v := range map[string]any{"a node whose Tuple holds the node": a, "a cycle alternating a pointer and a Tuple": b, "a Tuple holding a pointer to the interface that holds it": &boxed} {
		var err error
		var n int
		var leaked int
		e := withWatchdog(20*time.Second, &leaked, func() error {
			return guard(func() error {
				s := sb.Marshal(v)
				for n = 0; n < 3_000_000; n++ {
					var t sb.Token
					if err = s.Next(&t); err != nil || t.Invalid() {
						return nil
					}
				}
				return errDiverge
			})
		})
		rep.Evaluations++
		rep.count("api:cycles-through-marshalers")
		switch {
		case classOf(e) == "EDiverge":
			rep.violate("C18", "marshal-diverges", fmt.Sprintf("more than %d tokens without an end: a cycle through a marshaler is never detected", n), name)
		case e != nil || classOf(err) != "ECyclic":
			rep.violate("C18", "cycle-not-reported", fmt.Sprintf("Marshal returned %v (%v) after %d tokens, expected a CyclicPointer marshal error", err, e, n), name)
		}
	}
}

// a tree is its owner's: rewriting the tokens of its nodes in place must not reach anybody else's tokens
func apiTreeEditsStayPrivate(rep *Report, props ...string) {
	v := []any{nil, []*int{nil, nil}, map[string]any{"k": nil}, sb.Tuple{nil}, math.NaN(), struct{ P *int }{}}
	before, _ := marshalTokens(v, nil)
	tr, err := sb.TreeFromStream(tokensFrom(before))
	if err != nil {
		return
	}
	var walk func(t *sb.Tree)
	walk = func(t *sb.Tree) {
		if t.Token != nil {
			t.Token.Kind = sb.KindInt
			t.Token.Value = 99
		}
		for _, s := range t.Subs {
			walk(s)
		}
	}
	tr2, _ := sb.TreeFromStream(tokensFrom(before)) // a second tree of the same stream, built BEFORE the edit
	walk(tr)
	after, e2 := marshalTokens(v, nil)
	tr3, e3 := sb.TreeFromStream(tokensFrom(before)) // and a third one built after it
	var it2, it3 []sb.Token
	if tr2 != nil {
		it2, _ = collect(tr2.Iter())
	}
	if tr3 != nil && e3 == nil {
		it3, _ = collect(tr3.Iter())
	}
	if !tokensExactEq(it2, before) || !tokensExactEq(it3, before) {
		for _, p := range props {
			key := "tree-edit-leaks"
			if p == "C19" {
				key = "concurrent-result-differs"
			}
			rep.violate(p, key, fmt.Sprintf("after the nodes of one tree were rewritten in place, another tree of the same stream iterates to [%s] and a tree built afterwards to [%s]; the stream is [%s]", truncate(descTokens(it2), 150), truncate(descTokens(it3), 150), truncate(descTokens(before), 150)), "a tree edited in place")
		}
	}
	rep.Evaluations++
	rep.count("api:tree-edits")
	ok := e2 == nil && tokensExactEq(before, after) && sb.Nil.Kind == sb.KindNil && sb.NaN.Kind == sb.KindNaN && sb.Min.Kind == sb.KindMin && sb.Max.Kind == sb.KindMax && sb.Nil.Value == nil
	if !ok {
		for _, p := range props {
			key := "tree-edit-leaks"
			if p == "C19" {
				key = "concurrent-result-differs"
			}
			rep.violate(p, key, fmt.Sprintf("after the nodes of one tree were rewritten in place, marshalling an unrelated value gives [%s] (%v) instead of [%s]; sb.Nil=%v", truncate(descTokens(after), 200), e2, truncate(descTokens(before), 200), sb.Nil), "a tree edited in place")
		}
	}
}

// ---- round 7, second part ----

// an Unmarshal sink VALUE used for a second stream: each run decodes into the target as a run on a fresh sink does
type chainP struct {
	Tags []string
	Next *chainP
}

func apiUnmarshalSinkReuse(repU *Report) {
	v1 := &chainP{Tags: []string{"a", "b", "c"}, Next: &chainP{Tags: []string{"n"}}}
	v2 := &chainP{Tags: []string{"c"}}
	ts1, _ := marshalTokens(v1, nil)
	ts2, _ := marshalTokens(v2, nil)
	var target *chainP
	sink := sb.Unmarshal(&target)
	e1 := guard(func() error { return copyBudget(tokensFrom(ts1), sink) })
	first := target
	firstCopy, _ := marshalTokens(first, nil)
	target = nil
	e2 := guard(func() error { return copyBudget(tokensFrom(ts2), sink) })
	repU.Evaluations += 2
	repU.count("api:unmarshal-sink-reuse")
	got2, _ := marshalTokens(target, nil)
	firstAfter, _ := marshalTokens(first, nil)
	if e1 != nil || e2 != nil || !tokensExactEq(got2, ts2) || !tokensExactEq(firstCopy, ts1) || !tokensExactEq(firstAfter, ts1) {
		what := fmt.Sprintf("one Unmarshal sink value fed two streams (the target reset in between): second result [%s] (%v %v), expected [%s]; the first result afterwards [%s], expected [%s]", truncate(descTokens(got2), 200), e1, e2, truncate(descTokens(ts2), 200), truncate(descTokens(firstAfter), 200), truncate(descTokens(ts1), 200))
		repU.violate("C01", "roundtrip-not-equivalent", what, "Unmarshal sink reused for a pointer target")
		repU.violate("C05", "sink-reuse-differs", what, "Unmarshal sink reused for a pointer target")
	}
}

// strict mode + a deprecation list inherited through an embedded struct + a LIVE field whose name is on that list
type deprCarrier struct{ Extra int }

func (deprCarrier) SBDeprecatedFields() []string { return []string{"Old", "Live"} }

type WithInheritedDepr struct {
	deprCarrier
	Live int
	Name string
}

// a registered type holding a non-nil func without results
type RegFunc0 struct {
	F func()
	N int
}

func apiRound7Typed(repM, repU *Report) {
	obj := func(fields ...sb.Token) []sb.Token {
		return append(append([]sb.Token{tokK(sb.KindObject)}, fields...), tokK(sb.KindObjectEnd))
	}
	strict := sb.Ctx{DisallowUnknownStructFields: true, Unmarshal: sb.UnmarshalValue}
	{
		var v WithInheritedDepr
		ts := obj(tokS("Live"), tokI(5), tokS("Old"), tokS("gone"), tokS("Name"), tokS("n"))
		e := guard(func() error { return copyBudget(tokensFrom(ts), sb.UnmarshalValue(strict, reflect.ValueOf(&v), nil)) })
		repU.Evaluations++
		repU.count("api:inherited-deprecation")
		if e != nil || v.Live != 5 || v.Name != "n" {
			for _, p := range []string{"C05", "C16"} {
				repU.violate(p, "assign-by-name", fmt.Sprintf("strict mode, a live field whose name is also on the inherited deprecation list: got %+v (%v), the field must be assigned", v, e), "stream=["+descTokens(ts)+"]")
			}
		}
		var w WithInheritedDepr
		e = guard(func() error {
			return copyBudget(tokensFrom(obj(tokS("Nope"), tokI(1))), sb.UnmarshalValue(strict, reflect.ValueOf(&w), nil))
		})
		if classOf(e) != "EUnknownField" {
			repU.violate("C16", "strict-unknown-accepted", fmt.Sprintf("an unknown, undeclared name under strict mode: %v", e), "WithInheritedDepr")
		}
	}
	{
		t := reflect.TypeOf(RegFunc0{})
		sb.Register(t)
		called := 0
		v := RegFunc0{F: func() { called++ }, N: 4}
		ts, err := marshalTokens(v, nil)
		var x any
		e := guard(func() error { return copyBudget(tokensFrom(ts), sb.Unmarshal(&x)) })
		re, e2 := marshalTokens(x, nil)
		repU.Evaluations++
		repU.count("api:registered-func0")
		if err != nil || e != nil || e2 != nil || !tokensExactEq(re, ts) {
			repU.violate("C11", "any-not-lossless", fmt.Sprintf("a registered type holding a non-nil func() decodes into any and re-marshals to [%s] (%v %v %v), the stream was [%s]", descTokens(re), err, e, e2, descTokens(ts)), "RegFunc0")
			repU.violate("C01", "roundtrip-not-equivalent", fmt.Sprintf("a registered type holding a non-nil func() decodes into any and re-marshals to [%s] (%v %v %v), the stream was [%s]", descTokens(re), err, e, e2, descTokens(ts)), "RegFunc0")
		}
		var back RegFunc0
		e3 := guard(func() error { return copyBudget(tokensFrom(ts), sb.Unmarshal(&back)) })
		if e3 != nil || back.F == nil || back.N != 4 {
			repU.violate("C01", "roundtrip-not-equivalent", fmt.Sprintf("a non-nil func() field comes back as %v (%v): a non-nil tuple func with no results must stay non-nil", back.F == nil, e3), "RegFunc0")
		}
	}
}

// Compare over streams that deliver no token at all, whatever state their values are in
func apiCompareEmptyStreams(rep *Report) {
	drained := tokensFrom([]sb.Token{tokI(1)})
	collect(drained)
	mk := map[string]func() sb.Stream{
		"nil Stream":             func() sb.Stream { return nil },
		"ConcatStreams()":        func() sb.Stream { return sb.ConcatStreams() },
		"an already drained one": func() sb.Stream { return drained },
		"Tokens{}.Iter()":        func() sb.Stream { return sb.Tokens{}.Iter() },
		"Decode of empty input":  func() sb.Stream { return sb.Decode(bytes.NewReader(nil)) },
		"FilterProc dropping all": func() sb.Stream {
			return sb.FilterProc(tokensFrom([]sb.Token{tokI(1), tokS("x")}), func(*sb.Token) bool { return false })
		},
		"a zero Proc": func() sb.Stream { var p sb.Proc; return &p },
	}
	for na, a := range mk {
		for nb, b := range mk {
			var res int
			var err error
			e := guard(func() error { res, err = sb.Compare(a(), b()); return nil })
			rep.Evaluations++
			rep.count("api:compare-empty-streams")
			if e != nil || err != nil || res != 0 {
				rep.violate("C06", "not-the-documented-order", fmt.Sprintf("two streams without tokens compare %d (%v %v)", res, err, e), na+" vs "+nb)
			}
			one := tokensFrom([]sb.Token{tokI(1)})
			e = guard(func() error { res, err = sb.Compare(a(), one); return nil })
			if e != nil || err != nil || res != -1 {
				rep.violate("C06", "not-the-documented-order", fmt.Sprintf("an empty stream against [Int 1] compares %d (%v %v), a proper prefix sorts first", res, err, e), na+" vs [Int 1]")
			}
		}
	}
}

// faults travel through Sink.Marshal
func apiSinkMarshalFaults(rep *Report) {
	v := struct {
		A int
		B string
		C []int
	}{1, "some text", []int{1, 2, 3}}
	ts, _ := marshalTokens(v, nil)
	full := runEncode(ts, 0, 0)
	for fl := range writerFlavours {
		for k := 1; k <= full.calls+1 && k < 40; k++ {
			w, _ := mkWriter(fl, k)
			var err error
			e := guard(func() error { _, err = sb.Encode(w).Marshal(v); return nil })
			rep.Evaluations++
			rep.count("api:sink-marshal-faults")
			probe, _ := mkWriter(fl, k)
			pe := guard(func() error { return sb.Copy(tokensFrom(ts), sb.Encode(probe)) })
			if e != nil || (classOf(pe) == "EFault") != (classOf(err) == "EFault") {
				rep.violate("C15", "write-fault-lost", fmt.Sprintf("writer %q failing at call %d: Copy into Encode reports %v, Encode(w).Marshal(v) reports %v (%v)", writerFlavours[fl], k, pe, err, e), "Sink.Marshal over a failing writer")
			}
		}
	}
	// a failing sink behind Sink.Marshal
	var s sb.Sink = func(t *sb.Token) (sb.Sink, error) { return nil, errInjected }
	_, err := s.Marshal(v)
	var tgt int
	_, err2 := sb.Unmarshal(&tgt).Marshal("not an int")
	if classOf(err) != "EFault" || err2 == nil {
		rep.violate("C15", "sink-fault-lost", fmt.Sprintf("a failing sink behind Sink.Marshal: %v; a type mismatch behind Sink.Marshal: %v", err, err2), "Sink.Marshal over a failing sink")
	}
}

// a Tree as a pipeline stage source: iterated, edited below the root, iterated again (C13: tree-then-iterate is the identity
// on what the tree holds NOW)
func apiTreeIterAfterEdit(rep *Report) {
	base := []sb.Token{tokK(sb.KindArray), tokI(1), tokK(sb.KindArray), tokI(2), tokI(3), tokK(sb.KindArrayEnd), tokS("s"), tokK(sb.KindArrayEnd)}
	tr, e := sb.TreeFromStream(tokensFrom(base))
	if e != nil {
		return
	}
	it1, _ := collect(tr.Iter())
	tr.Subs[1].Subs[1].Token = &sb.Token{Kind: sb.KindInt, Value: 20}
	it2, _ := collect(tr.Iter())
	tr.Subs[1].Subs = append([]*sb.Tree{{Token: &sb.Token{Kind: sb.KindInt, Value: 0}}}, tr.Subs[1].Subs...)
	it3, _ := collect(tr.Iter())
	want2 := append([]sb.Token{}, base...)
	want2[4] = tokI(20)
	want3 := append(append(append([]sb.Token{}, want2[:3]...), tokI(0)), want2[3:]...)
	rep.Evaluations += 3
	rep.count("api:tree-iter-after-edit")
	if !tokensExactEq(it1, base) || !tokensExactEq(it2, want2) || !tokensExactEq(it3, want3) {
		what := fmt.Sprintf("iterations of one tree: [%s]; after replacing a leaf [%s] (holds [%s]); after inserting a child [%s] (holds [%s])", descTokens(it1), descTokens(it2), descTokens(want2), descTokens(it3), descTokens(want3))
		rep.violate("C13", "combinator-not-transparent", what, "tree edited between iterations")
		rep.violate("C12", "iter-differs", what, "tree edited between iterations")
	}
}

// ---- an Encode sink listed AFTER a typed Unmarshal sink in one Copy / behind a Tee: it writes the bytes of the source ----
func apiEncodeBesideUnmarshal(rep *Report) {
	lit := func(s string) sb.Token { return sb.Token{Kind: sb.KindLiteral, Value: s} }
	cases := []struct {
		ts  []sb.Token
		tgt func() any
	}{
		{[]sb.Token{lit("42")}, func() any { return new(int) }},
		{[]sb.Token{lit("1.5")}, func() any { return new(float32) }},
		{[]sb.Token{tokK(sb.KindArray), lit("1"), lit("200"), tokK(sb.KindArrayEnd)}, func() any { return new([]uint8) }},
		{[]sb.Token{tokK(sb.KindObject), tokS("A"), lit("7"), tokS("B"), tokS("s"), tokK(sb.KindObjectEnd)}, func() any {
			return new(struct {
				A int16
				B string
			})
		}},
		{[]sb.Token{tokI(5), tokS("x")}, func() any { return new(int) }},
	}
	for _, c := range cases {
		want := runEncode(c.ts, 0, 0).bytes
		for fl := range writerFlavours {
			w, cw := mkWriter(fl, 0)
			e := guard(func() error { return sb.Copy(tokensFrom(c.ts), sb.Unmarshal(c.tgt()), sb.Encode(w)) })
			w2, cw2 := mkWriter(fl, 0)
			e2 := guard(func() error { return sb.Copy(sb.Tee(tokensFrom(c.ts), sb.Unmarshal(c.tgt())), sb.Encode(w2)) })
			rep.Evaluations += 2
			rep.count("api:encode-beside-unmarshal")
			if e != nil || e2 != nil || !bytes.Equal(cw.buf.Bytes(), want) || !bytes.Equal(cw2.buf.Bytes(), want) {
				what := fmt.Sprintf("Copy(src, Unmarshal, Encode) wrote %x (%v), behind Tee(src, Unmarshal) %x (%v); the source encodes to %x", cw.buf.Bytes(), e, cw2.buf.Bytes(), e2, want)
				rep.violate("C03", "encode-not-a-function-of-the-stream", what, "stream=["+descTokens(c.ts)+"]")
				rep.violate("C02", "roundtrip", what, "stream=["+descTokens(c.ts)+"]")
			}
		}
	}
}

// ---- round 8 ----

// an SBMarshaler that nests its content as a stream of its own under the context it was handed
type ctxBox struct{ P *ctxBoxNode }
type ctxBoxNode struct {
	Name string
	Box  ctxBox
}

func (b ctxBox) MarshalSB(ctx sb.Ctx, cont sb.Proc) sb.Proc {
	return sb.IterStream(sb.MarshalCtx(ctx, b.P), cont)
}

func apiCyclesThroughNestedStreams(rep *Report) {
	one := &ctxBoxNode{Name: "a"}
	one.Box.P = one
	a, b, c := &ctxBoxNode{Name: "a"}, &ctxBoxNode{Name: "b"}, &ctxBoxNode{Name: "c"}
	a.Box.P, b.Box.P, c.Box.P = b, c, a
	head := &ctxBoxNode{Name: "head", Box: ctxBox{P: &ctxBoxNode{Name: "mid", Box: ctxBox{P: a}}}}
	var chain *ctxBoxNode
	for i := 0; i < 1500; i++ {
		chain = &ctxBoxNode{Name: "n", Box: ctxBox{P: chain}}
	}
	for name, c := range map[string]struct {
		v      any
		cyclic bool
	}{"node -> box (nested MarshalCtx stream) -> node": {one, true}, "a cycle of three boxes entered after a prefix": {head, true}, "an acyclic chain of 1500 boxes": {chain, false}} {
		for _, opt := range []bool{false, true} {
			var err error
			n := 0
			var leaked int
			e := withWatchdog(20*time.Second, &leaked, func() error {
				return guard(func() error {
					var s sb.Stream
					if opt {
						s = sb.MarshalCtx(sb.DefaultCtx.SkipEmpty(), c.v)
					} else {
						s = sb.Marshal(c.v)
					}
					for n = 0; n < 2_000_000; n++ {
						var t sb.Token
						if err = s.Next(&t); err != nil || t.Invalid() {
							return nil
						}
					}
					return errDiverge
				})
			})
			rep.Evaluations++
			rep.count("api:cycles-through-nested-streams")
			switch {
			case classOf(e) == "EDiverge":
				rep.violate("C18", "marshal-diverges", fmt.Sprintf("more than %d tokens without an end", n), name)
			case c.cyclic && (e != nil || classOf(err) != "ECyclic"):
				rep.violate("C18", "cycle-not-reported", fmt.Sprintf("Marshal returned %v (%v) after %d tokens, expected a CyclicPointer marshal error", err, e, n), name)
			case !c.cyclic && (e != nil || err != nil):
				rep.violate("C18", "acyclic-rejected", fmt.Sprintf("an acyclic value failed to marshal: %v %v", err, e), name)
			}
		}
	}
}

// FilterProc over combinators that fail AFTER the token variable was filled
func apiFilterOverFaults(rep *Report) {
	ts := []sb.Token{tokK(sb.KindArray), tokI(1), {Kind: sb.KindRef, Value: []byte("h")}, tokI(2), tokK(sb.KindArrayEnd)}
	keep := func(*sb.Token) bool { return true }
	for k := 1; k <= len(ts); k++ {
		calls := 0
		var failing sb.Sink
		failing = func(t *sb.Token) (sb.Sink, error) {
			calls++
			if calls == k {
				return nil, errInjected
			}
			return failing, nil
		}
		got, err := collect(sb.FilterProc(sb.Tee(tokensFrom(ts), failing), keep))
		rep.Evaluations++
		rep.count("api:filter-over-faults")
		if classOf(err) != "EFault" {
			rep.violate("C15", "stream-fault-lost", fmt.Sprintf("FilterProc over a Tee whose side sink fails at its call %d: %d tokens and %v, the fault must surface", k, len(got), err), "FilterProc(Tee(src, failing sink))")
		}
	}
	got, err := collect(sb.FilterProc(sb.Deref(tokensFrom(ts), func([]byte) (sb.Stream, error) { return nil, errInjected }), keep))
	if classOf(err) != "EFault" {
		rep.violate("C15", "stream-fault-lost", fmt.Sprintf("FilterProc over a Deref whose resolver fails: %d tokens and %v, the fault must surface", len(got), err), "FilterProc(Deref(failing resolver))")
	}
	// truncated input under a Tee: the side sink sees exactly what the decoder delivers alone
	valid := runEncode([]sb.Token{tokK(sb.KindArray), tokS("a string"), tokI(5), {Kind: sb.KindBytes, Value: []byte("blob")}, tokK(sb.KindArrayEnd)}, 0, 0).bytes
	for cut := 1; cut < len(valid); cut++ {
		for _, cmp := range []bool{false, true} {
			mk := func() sb.Stream {
				if cmp {
					return sb.DecodeForCompare(bytes.NewReader(valid[:cut]))
				}
				return sb.Decode(bytes.NewReader(valid[:cut]))
			}
			alone, aErr := collect(mk())
			var side []sb.Token
			var rec sb.Sink
			rec = func(t *sb.Token) (sb.Sink, error) {
				if t.Invalid() {
					return nil, nil
				}
				side = append(side, *t)
				return rec, nil
			}
			main, tErr := collect(sb.Tee(mk(), rec))
			rep.Evaluations++
			if classOf(aErr) != classOf(tErr) || !tokensExactEq(main, alone) || len(side) > len(alone) || !tokensExactEq(side, alone[:len(side)]) || len(side)+1 < len(alone) {
				what := fmt.Sprintf("input cut at byte %d (compare decoder %v): alone %d tokens (%v); under a Tee the consumer gets %d (%v) and the side sink [%s]", cut, cmp, len(alone), aErr, len(main), tErr, truncate(descTokens(side), 200))
				rep.violate("C04", "truncation-wrong-tokens", what, fmt.Sprintf("Tee(Decode(%x), recorder)", valid[:cut]))
				rep.violate("C15", "fault-prefix", what, fmt.Sprintf("Tee(Decode(%x), recorder)", valid[:cut]))
				rep.violate("C14", "tee-side-sink-delivery", what, fmt.Sprintf("Tee(Decode(%x), recorder)", valid[:cut]))
			}
		}
	}
}

// one `any` variable as the target of two decodes in a row; sentinel tokens as struct members under skip-empty
type RegHolder struct {
	Tags []string
	M    map[string]int
}

func apiRound8Typed(repM, repU *Report) {
	pt := reflect.TypeOf((*RegHolder)(nil))
	sb.Register(pt)
	v1 := &RegHolder{Tags: []string{"a", "b"}, M: map[string]int{"x": 1}}
	v2 := &RegHolder{Tags: []string{"c"}, M: map[string]int{"y": 2}}
	ts1, _ := marshalTokens(v1, nil)
	ts2, _ := marshalTokens(v2, nil)
	var slot any
	e1 := guard(func() error { return copyBudget(tokensFrom(ts1), sb.Unmarshal(&slot)) })
	e2 := guard(func() error { return copyBudget(tokensFrom(ts2), sb.Unmarshal(&slot)) })
	var fresh any
	guard(func() error { return copyBudget(tokensFrom(ts2), sb.Unmarshal(&fresh)) })
	repU.Evaluations += 3
	repU.count("api:any-slot-reuse")
	got, _ := marshalTokens(slot, nil)
	want, _ := marshalTokens(fresh, nil)
	if e1 != nil || e2 != nil || !tokensExactEq(got, want) || !tokensExactEq(want, ts2) {
		what := fmt.Sprintf("an `any` variable that already holds a value of a registered pointer type, used for the next decode: holds [%s] (%v %v), a fresh variable gives [%s]", truncate(descTokens(got), 200), e1, e2, truncate(descTokens(want), 200))
		repU.violate("C11", "any-not-lossless", what, "any slot reused")
		repU.violate("C05", "sink-reuse-differs", what, "any slot reused")
	}
	// sentinel tokens are not empty
	type bound struct {
		Shard int
		T     sb.Token
	}
	for _, tok := range []sb.Token{sb.Min, sb.Max, sb.Nil, sb.NaN} {
		skip := mkCtx(true, false)
		ts, err := marshalTokens(bound{Shard: 3, T: tok}, &skip)
		repM.Evaluations++
		want := []sb.Token{tokK(sb.KindObject), tokS("Shard"), tokI(3), tokS("T"), tok, tokK(sb.KindObjectEnd)}
		if err != nil || !tokensExactEq(ts, want) {
			repM.violate("C16", "skip-empty-drops-non-empty", fmt.Sprintf("under skip-empty a struct member holding the token %s marshals to [%s] (%v), expected [%s]", descToken(tok), descTokens(ts), err, descTokens(want)), "sentinel token as a struct member")
			repM.violate("C06", "not-the-documented-order", fmt.Sprintf("a bound {shard, %s} marshalled under skip-empty loses its sentinel: [%s]", descToken(tok), descTokens(ts)), "sentinel token as a struct member")
			repM.violate("C08", "skip-empty-drops-non-empty", fmt.Sprintf("under skip-empty a struct member holding the token %s marshals to [%s]", descToken(tok), descTokens(ts)), "sentinel token as a struct member")
		}
	}
	// IgnoreFuncs + map keys that are pointers to structs holding funcs: the stream is a function of the content
	type fk struct {
		F func() int
		N int
	}
	// (k1 and k2 differ ONLY in what their funcs return: ordered by the default-options key streams, 1 before 5)
	k1, k2, k3 := &fk{func() int { return 1 }, 1}, &fk{func() int { return 5 }, 1}, &fk{nil, 3}
	m := map[*fk]string{k1: "a", k2: "b", k3: "c"}
	ig := sb.Ctx{IgnoreFuncs: true, Marshal: sb.MarshalValue}
	first, err := collectN(sb.MarshalCtx(ig, m), 1000)
	stable := err == nil
	for i := 0; stable && i < 30; i++ {
		m2 := map[*fk]string{}
		for _, k := range []*fk{k3, k1, k2}[i%3:] {
			m2[k] = m[k]
		}
		for k, x := range m {
			m2[k] = x
		}
		again, e := collectN(sb.MarshalCtx(ig, m2), 1000)
		if e != nil || !tokensExactEq(first, again) {
			stable = false
		}
	}
	repM.Evaluations += 30
	if !stable {
		repM.violate("C08", "not-deterministic", fmt.Sprintf("a map keyed by pointers to structs holding funcs, marshalled under IgnoreFuncs, gives different streams for the same content (first [%s], %v)", truncate(descTokens(first), 200), err), "IgnoreFuncs + func-holding pointer keys")
	}
}

// ---- one decoder VALUE (the Proc DecodeBuffer returned) polled again and again on a reader that a producer appends to ----
func apiPolledDecoder(rep *Report, r *rand.Rand) {
	for flavour := 0; flavour < 2; flavour++ {
		buf := new(bytes.Buffer)
		var dec sb.Proc
		if flavour == 0 {
			dec = sb.DecodeBuffer(buf, buf, make([]byte, 8), nil)
		} else {
			dec = sb.DecodeBuffer(plainOnly{buf}, nil, make([]byte, 8), nil)
		}
		for poll := 0; poll < 12; poll++ {
			var want []sb.Token
			if poll%3 != 1 { // every third poll finds nothing new
				for k := 0; k < 1+r.Intn(3); k++ {
					v := randValue(r, 2, false).flatten(nil)
					want = append(want, v...)
				}
				if e := guard(func() error { return sb.Copy(tokensFrom(want), sb.Encode(buf)) }); e != nil {
					return
				}
			}
			stream := dec // the same decoder value, pulled again
			got, err := collect(&stream)
			rep.Evaluations++
			rep.count("api:polled-decoder")
			if err != nil || !tokensExactEq(got, want) || buf.Len() != 0 {
				what := fmt.Sprintf("poll %d of one decoder value on a growing reader (flavour %d): %d tokens were appended, the decoder delivered %d (%v), %d bytes left unread", poll, flavour, len(want), len(got), err, buf.Len())
				rep.violate("C02", "interleaved-roundtrip", what, "polled decoder")
				rep.violate("C04", "interleaved-roundtrip", what, "polled decoder")
				return
			}
		}
	}
}

type plainOnly struct{ r io.Reader }

func (p plainOnly) Read(b []byte) (int, error) { return p.r.Read(b) }

// ---- round 8, second part ----

// range bounds built from sentinel tokens keep their order however they are marshalled (C06 through the marshaller)
func apiSentinelBounds(rep *Report) {
	type bound struct {
		Shard int
		Key   sb.Token
	}
	for _, skipEmpty := range []bool{false, true} {
		ctx := sb.Ctx{SkipEmptyStructFields: skipEmpty, Marshal: sb.MarshalValue}
		mk := func(v any) []sb.Token { ts, _ := collectN(sb.MarshalCtx(ctx, v), 1000); return ts }
		lo, mid, hi := mk(bound{3, sb.Min}), mk(bound{3, sb.Token{Kind: sb.KindString, Value: "k"}}), mk(bound{3, sb.Max})
		c1, e1 := cmpTokensImpl(lo, mid)
		c2, e2 := cmpTokensImpl(mid, hi)
		c3, e3 := cmpTokensImpl(lo, hi)
		rep.Evaluations += 3
		rep.count("api:sentinel-bounds")
		if e1 != nil || e2 != nil || e3 != nil || c1 >= 0 || c2 >= 0 || c3 >= 0 {
			rep.violate("C06", "min-not-below", fmt.Sprintf("bounds {3, Min} / {3, \"k\"} / {3, Max} marshalled (skip-empty=%v) to [%s] / [%s] / [%s] compare %d %d %d (%v %v %v): Min sorts below and Max above every value", skipEmpty, descTokens(lo), descTokens(mid), descTokens(hi), c1, c2, c3, e1, e2, e3), "range bounds with sentinel tokens")
		}
	}
}

// FindByHash on streams holding Ref tokens: a reference IS found by its payload (a substituted sub-value keeps its hash)
func apiFindRefs(rep *Report) {
	h := []byte("0123456789abcdef")
	ref := sb.Token{Kind: sb.KindRef, Value: h}
	streams := [][]sb.Token{
		{ref},
		{tokK(sb.KindArray), tokI(1), ref, tokK(sb.KindArrayEnd)},
		{tokK(sb.KindObject), tokS("A"), ref, tokS("B"), tokK(sb.KindArray), ref, tokK(sb.KindArrayEnd), tokK(sb.KindObjectEnd)},
		{{Kind: sb.KindTypeName, Value: "t"}, ref},
	}
	for _, ts := range streams {
		for _, f := range []hashFn{hashFns[0], hashFns[2]} {
			var got []sb.Token
			var err error
			e := guard(func() error {
				s, e2 := sb.FindByHash(tokensFrom(ts), h, f.new)
				if e2 != nil {
					err = e2
					return nil
				}
				got, err = collect(s)
				return nil
			})
			rep.Evaluations++
			rep.count("api:find-refs")
			if e != nil || err != nil || len(got) != 1 || !tokenExactEq(got[0], ref) {
				what := fmt.Sprintf("FindByHash(%s) with the payload of a reference the stream holds returns [%s] (%v %v), expected the reference token", f.name, descTokens(got), err, e)
				rep.violate("C13", "pipeline-error", what, "stream=["+descTokens(ts)+"]")
				rep.violate("C12", "find-missing", what, "stream=["+descTokens(ts)+"]")
				rep.violate("C10", "declined-reference-not-passed-through", what, "stream=["+descTokens(ts)+"]")
			}
		}
	}
}

// unknown and deprecated members are skipped whatever they hold - literal tokens, sentinels, references included
func apiSkipAnything(repU *Report) {
	type T struct{ A int }
	lit := sb.Token{Kind: sb.KindLiteral, Value: "12.5"}
	vals := [][]sb.Token{
		{lit}, {tokK(sb.KindMin)}, {tokK(sb.KindMax)}, {{Kind: sb.KindRef, Value: []byte("h")}}, {tokK(sb.KindNaN)}, {tokK(sb.KindNil)},
		{tokK(sb.KindArray), lit, tokK(sb.KindArray), lit, tokK(sb.KindArrayEnd), tokK(sb.KindArrayEnd)},
		{tokK(sb.KindObject), tokS("x"), lit, tokS("y"), tokK(sb.KindNil), tokK(sb.KindObjectEnd)},
		{tokK(sb.KindMap), lit, lit, tokK(sb.KindMapEnd)},
		{tokK(sb.KindTuple), lit, tokK(sb.KindMin), tokK(sb.KindTupleEnd)},
		{{Kind: sb.KindTypeName, Value: "t"}, lit},
	}
	for _, val := range vals {
		ts := append(append([]sb.Token{tokK(sb.KindObject), tokS("Gone")}, val...), tokS("A"), tokI(7), tokK(sb.KindObjectEnd))
		var v T
		e := guard(func() error { return copyBudget(tokensFrom(ts), sb.Unmarshal(&v)) })
		var w WithDeprecated
		ts2 := append(append([]sb.Token{tokK(sb.KindObject), tokS("Old")}, val...), tokS("Keep"), tokI(7), tokK(sb.KindObjectEnd))
		strict := sb.Ctx{DisallowUnknownStructFields: true, Unmarshal: sb.UnmarshalValue}
		e2 := guard(func() error { return copyBudget(tokensFrom(ts2), sb.UnmarshalValue(strict, reflect.ValueOf(&w), nil)) })
		repU.Evaluations += 2
		repU.count("api:skip-anything")
		if e != nil || v.A != 7 || e2 != nil || w.Keep != 7 {
			what := fmt.Sprintf("an unknown member holding [%s]: %v (A=%d); the same under a deprecated name in strict mode: %v (Keep=%d); both must be skipped", descTokens(val), e, v.A, e2, w.Keep)
			repU.violate("C16", "unknown-field-not-skipped", what, "stream=["+descTokens(ts)+"]")
			repU.violate("C05", "conforming-rejected", what, "stream=["+descTokens(ts)+"]")
		}
	}
}

// ---- round 8, third part ----
func apiRound8More(repM, repU *Report) {
	// values chained through one Encode sink by Sink.Marshal, decoded and unmarshalled one by one (C01 through this API)
	{
		type rec struct {
			A int
			B []string
		}
		vals := []rec{{1, []string{"x"}}, {2, nil}, {3, []string{"y", "z"}}}
		var buf bytes.Buffer
		sink := sb.Encode(&buf)
		var err error
		for _, v := range vals {
			if sink, err = sink.Marshal(v); err != nil {
				break
			}
		}
		dec := sb.Decode(&buf)
		ok := err == nil
		var got []rec
		for i := 0; ok && i < len(vals); i++ {
			var r rec
			if e := guard(func() error { return sb.Copy(dec, sb.Unmarshal(&r)) }); e != nil {
				ok = false
			}
			got = append(got, r)
		}
		repU.Evaluations++
		repU.count("api:sink-marshal-roundtrip")
		if !ok || !reflect.DeepEqual(got, vals) {
			repU.violate("C01", "roundtrip-bytes", fmt.Sprintf("three values chained through Encode(w).Marshal and read back one by one: %v (%v), expected %v", got, err, vals), "Sink.Marshal chain")
		}
	}
	// interface-typed map keys that are byte arrays: the element path carries the key as the map holds it
	{
		m := map[any]int{[3]byte{1, 2, 3}: 1, "s": 2, [2]byte{9, 9}: 3}
		ts, err := marshalTokens(m, nil)
		if err == nil {
			utapsCase(repU, reflect.TypeOf(m), ts, false, "map[any]int with byte-array keys")
			var seen []any
			back := map[any]int{}
			e := guard(func() error {
				return copyBudget(tokensFrom(ts), sb.TapUnmarshal(sb.Ctx{}, &back, func(c sb.Ctx, _ sb.Token, _ reflect.Value) {
					if len(c.Path) == 1 {
						seen = append(seen, c.Path[0])
					}
				}))
			})
			repU.Evaluations++
			bad := e != nil
			for _, k := range seen {
				found := false
				func() {
					defer func() { _ = recover() }() // a path element that is not even hashable is not a key of the map
					_, found = back[k]
				}()
				if !found {
					bad = true
				}
			}
			if bad {
				repU.violate("C17", "unmarshal-tap-path", fmt.Sprintf("the path elements reported for the entries of a map[any]int with byte-array keys (%v) are not keys of the decoded map %v (%v)", seen, back, e), "map[any]int with byte-array keys")
			}
		}
	}
}

// a compound whose children were replaced after the tree was built hashes like the stream it now iterates to
func apiFillHashAfterEdit(rep *Report) {
	a := []sb.Token{tokK(sb.KindArray), tokI(1), tokK(sb.KindArray), tokI(2), tokK(sb.KindArrayEnd), tokK(sb.KindArrayEnd)}
	b := []sb.Token{tokK(sb.KindArray), tokS("x"), tokS("y"), tokI(3), tokK(sb.KindArrayEnd)}
	for _, f := range []hashFn{hashFns[0], hashFns[2]} {
		ta, e1 := sb.TreeFromStream(tokensFrom(a))
		tb, e2 := sb.TreeFromStream(tokensFrom(b))
		if e1 != nil || e2 != nil {
			return
		}
		_ = ta.FillHash(f.new)
		inner := ta.Subs[1]
		inner.Subs = tb.Subs // the inner array now holds b's children (and b's end marker)
		var clear func(t *sb.Tree)
		clear = func(t *sb.Tree) {
			t.Hash = nil
			for _, s := range t.Subs {
				clear(s)
			}
		}
		clear(ta)
		now, _ := collect(ta.Iter())
		e := guard(func() error { return ta.FillHash(f.new) })
		want, _ := sinkHash(now, f)
		rep.Evaluations++
		rep.count("api:fillhash-after-edit")
		if e != nil || !bytes.Equal(ta.Hash, want) {
			what := fmt.Sprintf("a tree whose inner compound received the children of another tree iterates to [%s]; FillHash(%s) gives %x (%v), the stream hashes to %x", descTokens(now), f.name, ta.Hash, e, want)
			rep.violate("C09", "fillhash-differs", what, "tree edited, then re-hashed")
			rep.violate("C12", "node-hash-wrong", what, "tree edited, then re-hashed")
		}
	}
}

// the streams handed to ConcatStreams are advanced in place: a consumer that stops early and the owner reading on from
// the same stream value see every token exactly once between them
func apiConcatAdvancesInPlace(rep *Report) {
	first := []sb.Token{tokI(1), tokI(2)}
	value := struct {
		A int
		B []string
		C map[string]int
	}{1, []string{"x", "y"}, map[string]int{"k": 2}}
	body, _ := marshalTokens(value, nil)
	for stop := len(first); stop <= len(first)+len(body); stop++ { // (the consumer has at least finished the first stream)
		var last sb.Stream = tokensFrom(body)
		if stop%2 == 0 {
			last = sb.Marshal(value) // a producer whose steps are fresh closures
		}
		cs := sb.ConcatStreams(tokensFrom(first), last)
		var got []sb.Token
		for i := 0; i < stop; i++ {
			var t sb.Token
			if err := cs.Next(&t); err != nil || t.Invalid() {
				break
			}
			got = append(got, t)
		}
		rest, _ := collect(last)
		all := append(append([]sb.Token{}, got...), rest...)
		want := append(append([]sb.Token{}, first...), body...)
		rep.Evaluations++
		rep.count("api:concat-in-place")
		if !tokensExactEq(all, want) {
			rep.violate("C14", "delivery", fmt.Sprintf("a consumer took %d tokens from ConcatStreams(first, last), the owner then read on from `last`: together [%s], expected each token once: [%s]", stop, descTokens(all), descTokens(want)), "ConcatStreams then the last stream directly")
			rep.violate("C13", "combinator-not-transparent", fmt.Sprintf("a consumer took %d tokens from ConcatStreams(first, last), the owner then read on from `last`: together [%s]", stop, descTokens(all)), "ConcatStreams then the last stream directly")
		}
	}
}

// ---- C19: several goroutines unmarshalling strictly into one type with deprecated fields, the memo cold ----
func apiDeprecationRace(rep *Report, rounds int) {
	ts := []sb.Token{tokK(sb.KindObject), tokS("Old"), tokI(1), tokS("Keep"), tokI(7), tokS("Gone"), tokS("x"), tokK(sb.KindObjectEnd)}
	strict := sb.Ctx{DisallowUnknownStructFields: true, Unmarshal: sb.UnmarshalValue}
	old := runtime.GOMAXPROCS(4)
	defer runtime.GOMAXPROCS(old)
	bad := ""
	for round := 0; round < rounds && bad == ""; round++ {
		sb.VerifResetCaches()
		const G = 4
		var wg sync.WaitGroup
		start := make(chan struct{})
		errs := make([]error, G)
		vals := make([]WithDeprecated, G)
		for g := 0; g < G; g++ {
			wg.Add(1)
			go func(g int) {
				defer wg.Done()
				<-start
				errs[g] = guard(func() error {
					return sb.Copy(tokensFrom(ts), sb.UnmarshalValue(strict, reflect.ValueOf(&vals[g]), nil))
				})
			}(g)
		}
		close(start)
		wg.Wait()
		for g := range errs {
			if errs[g] != nil || vals[g].Keep != 7 {
				bad = fmt.Sprintf("round %d, goroutine %d: %v (Keep=%d); alone the stream is accepted (deprecated fields are skipped in strict mode)", round, g, errs[g], vals[g].Keep)
			}
		}
	}
	rep.Evaluations += rounds
	rep.count("api:deprecation-race-rounds")
	if bad != "" {
		rep.violate("C19", "concurrent-result-differs", bad, fmt.Sprintf("%d rounds of 4 goroutines unmarshalling strictly into one type with deprecated fields, memo cold", rounds))
	}
}

// ---- literal tokens at the corners of strconv: every text x every scalar target, against strconv itself and the model ----
func apiLiteralCorners(repU *Report, wU *CaseWriter) {
	texts := []string{"+5", "-5", "5", "05", "1_000", "0x10", "0X1F", "0b11", "0o7", "0x1p-2", "1e400", "-1e400", "1e-400", "Inf", "+Inf", "-inf", "nan", "NaN", "infinity", " 5", "5 ", "", "+", "-", ".", ".5", "5.", "1e", "1e+3", "1E3", "00", "-0", "+0", "0.0", "-0.0",
		"340282346638528859811704183484516925440", "340282356779733661637539395458142568448", "123456789012345678901234567890", "18446744073709551615", "18446744073709551616", "9223372036854775807", "9223372036854775808", "-9223372036854775808", "-9223372036854775809",
		"255", "256", "-129", "127", "128", "65535", "65536", "true", "false", "1", "0", "t", "T", "TRUE", "True", "f", "F", "yes", "1.0", "１"}
	reg := coqRegistry()
	for _, t := range scalarTypes {
		for _, s := range texts {
			ts := []sb.Token{{Kind: sb.KindLiteral, Value: s}}
			back, e := unmarshalInto(t, ts, nil)
			repU.Evaluations++
			repU.count("api:literal-corners")
			desc := fmt.Sprintf("literal %q into %v", s, t)
			// strconv itself
			var wantErr error
			want := reflect.New(t).Elem()
			switch t.Kind() {
			case reflect.Bool:
				b, err := strconv.ParseBool(s)
				wantErr = err
				want.SetBool(b)
			case reflect.Int, reflect.Int8, reflect.Int16, reflect.Int32, reflect.Int64:
				i, err := strconv.ParseInt(s, 10, t.Bits())
				wantErr = err
				want.SetInt(i)
			case reflect.Uint, reflect.Uint8, reflect.Uint16, reflect.Uint32, reflect.Uint64, reflect.Uintptr:
				u, err := strconv.ParseUint(s, 10, t.Bits())
				wantErr = err
				want.SetUint(u)
			case reflect.Float32, reflect.Float64:
				f, err := strconv.ParseFloat(s, t.Bits())
				wantErr = err
				want.SetFloat(f)
			case reflect.String:
				want.SetString(s)
			}
			if classOf(e) == "EPanic" {
				repU.violate("C05", "unmarshal-panic", fmt.Sprintf("%v", e), desc)
				continue
			}
			if (wantErr == nil) != (e == nil) || (e == nil && !equivValues(want, back)) {
				what := fmt.Sprintf("sb: %v %v; strconv: %v %v", safeFormat(back), e, safeFormat(want), wantErr)
				repU.violate("C20", "differs-from-encoding-json", "a literal token is converted as strconv converts its text for the target's kind and width: "+what, desc)
				repU.violate("C05", "literal-conversion", what, desc)
			}
			if e != nil && classOf(e) != "EParse" {
				repU.violate("C05", "literal-conversion", fmt.Sprintf("a text strconv rejects is reported as %s, not as the strconv error", classOf(e)), desc)
			}
			tyS := coqTy(t)
			wU.add(fmt.Sprintf("UnmarshalCase %s %s %s %s %s %s %s", coqOpts(false, false, false), reg, tyS, "(zero "+tyS+")", coqTokens(ts), floatTable(ts), uobs(back, e)), desc, true)
		}
	}
}

// ---- partial progress: a pointer is assigned, a slice replaced, an interface filled only when their value is complete;
// a failure inside them leaves the position as it was ----
func apiNoHalfAssignment(repU *Report) {
	type inner struct {
		A int
		B string
	}
	type holder struct {
		P  *inner
		PP **int
		S  []inner
		X  any
		N  int
		M  map[string]int
	}
	obj := func(fields ...sb.Token) []sb.Token {
		return append(append([]sb.Token{tokK(sb.KindObject)}, fields...), tokK(sb.KindObjectEnd))
	}
	bad := tokS("not an int")
	cases := map[string][]sb.Token{
		"a mismatch inside the pointee":                    obj(tokS("N"), tokI(1), tokS("P"), tokK(sb.KindObject), tokS("B"), tokS("b"), tokS("A"), bad),
		"the stream ends inside the pointee":               obj(tokS("N"), tokI(1), tokS("P"), tokK(sb.KindObject), tokS("A"), tokI(2))[:7],
		"a mismatch behind two pointer levels":             obj(tokS("N"), tokI(1), tokS("PP"), bad),
		"a mismatch in the second slice element":           obj(tokS("N"), tokI(1), tokS("S"), tokK(sb.KindArray), tokK(sb.KindObject), tokS("A"), tokI(5), tokK(sb.KindObjectEnd), tokK(sb.KindObject), tokS("A"), bad),
		"a bad key inside a schema-less map":               obj(tokS("N"), tokI(1), tokS("X"), tokK(sb.KindMap), tokS("k"), tokI(1), tokK(sb.KindArray), tokK(sb.KindArrayEnd), tokI(2), tokK(sb.KindMapEnd)),
		"the first value of a nil map is rejected":         obj(tokS("N"), tokI(1), tokS("M"), tokK(sb.KindMap), tokS("k"), bad),
		"the stream ends after the first key of a nil map": obj(tokS("N"), tokI(1), tokS("M"), tokK(sb.KindMap), tokS("k"))[:6],
		"the stream ends inside a schema-less array":       obj(tokS("N"), tokI(1), tokS("X"), tokK(sb.KindArray), tokI(1), tokI(2))[:8],
	}
	for name, ts := range cases {
		h := holder{S: []inner{{9, "kept"}}}
		e := guard(func() error { return copyBudget(tokensFrom(ts), sb.Unmarshal(&h)) })
		repU.Evaluations++
		repU.count("api:no-half-assignment")
		if e == nil {
			repU.violate("C05", "mismatch-accepted", fmt.Sprintf("accepted: %+v", h), name+": ["+descTokens(ts)+"]")
			continue
		}
		if h.P != nil || h.PP != nil || h.X != nil || h.M != nil || len(h.S) != 1 || h.S[0] != (inner{9, "kept"}) || h.N != 1 {
			what := fmt.Sprintf("after the failure (%s) the target holds P=%v PP=%v S=%v X=%v M=%v N=%d: a pointer is assigned, a slice replaced and an interface filled only once their value is complete (fields before the failing one keep what they were given)", classOf(e), h.P, h.PP, h.S, h.X, h.M, h.N)
			repU.violate("C05", "half-assigned-on-failure", what, name+": ["+descTokens(ts)+"]")
			repU.violate("C01", "half-assigned-on-failure", what, name+": ["+descTokens(ts)+"]")
			repU.violate("C15", "half-assigned-on-failure", what, name+": ["+descTokens(ts)+"]")
			repU.violate("C11", "half-assigned-on-failure", what, name+": ["+descTokens(ts)+"]")
		}
	}
}

// ---- round 9 ----

// a resolver that answers with a stream AND an error: the error is the answer
func apiDerefResolverBoth(rep *Report) {
	ts := []sb.Token{tokK(sb.KindArray), {Kind: sb.KindRef, Value: []byte("h")}, tokI(2), tokK(sb.KindArrayEnd)}
	got, err := collect(sb.Deref(tokensFrom(ts), func([]byte) (sb.Stream, error) { return tokensFrom([]sb.Token{tokI(1)}), errInjected }))
	rep.Evaluations++
	rep.count("api:deref-resolver-both")
	if classOf(err) != "EFault" {
		rep.violate("C10", "resolver-error-lost", fmt.Sprintf("a resolver returning a stream together with an error: Deref delivers [%s] and %v, the error must surface", descTokens(got), err), "resolver returns (stream, error)")
		rep.violate("C15", "stream-fault-lost", fmt.Sprintf("a resolver returning a stream together with an error: Deref delivers [%s] and %v", descTokens(got), err), "resolver returns (stream, error)")
	}
}

// the target of a Hash sink holds nothing before the value is complete, and nothing after a run that failed
func apiHashTargetTiming(rep *Report) {
	for _, f := range []hashFn{hashFns[0], hashFns[2]} {
		var sum []byte
		sink := sb.Hash(f.new, &sum, nil)
		early := false
		toks := []sb.Token{{Kind: sb.KindTypeName, Value: "t"}, tokI(5)}
		for i := range toks {
			tk := toks[i]
			var e error
			if sink, e = sink(&tk); e != nil {
				return
			}
			if sum != nil {
				early = true
			}
		}
		var end sb.Token
		if sink != nil {
			sink, _ = sink(&end)
		}
		want, _ := sinkHash(toks, f)
		rep.Evaluations++
		rep.count("api:hash-target-timing")
		if early || !bytes.Equal(sum, want) {
			what := fmt.Sprintf("H=%s: the target of a Hash sink was written before the type-named value was complete (early=%v); at the end it holds %x, the stream hashes to %x", f.name, early, sum, want)
			rep.violate("C09", "digest-before-the-end", what, "[TypeName t, Int 5] driven by hand")
			rep.violate("C12", "node-hash-wrong", what, "[TypeName t, Int 5] driven by hand")
		}
		// a run that fails after the named scalar: the target stays nil
		var sum2 []byte
		failing := faultyAt([]sb.Token{{Kind: sb.KindTypeName, Value: "t"}, tokI(5), tokI(6)}, 2)
		e := guard(func() error { return sb.Copy(failing, sb.Hash(f.new, &sum2, nil)) })
		if classOf(e) != "EFault" || sum2 != nil {
			what := fmt.Sprintf("H=%s: a stream that fails right after a type-named scalar leaves %x in the Hash target (%v); a failed run leaves it nil", f.name, sum2, e)
			rep.violate("C09", "digest-before-the-end", what, "[TypeName t, Int 5] then a fault")
			rep.violate("C12", "node-hash-wrong", what, "[TypeName t, Int 5] then a fault")
			rep.violate("C15", "fault-prefix", what, "[TypeName t, Int 5] then a fault")
		}
	}
}

// skip-empty is about Go zero values and empty slices, not about an IsZero() method
type optInt struct {
	V     int
	Valid bool
}

func (o optInt) IsZero() bool { return !o.Valid }

func apiSkipEmptyIsZeroMethod(repM *Report) {
	type T struct {
		When time.Time
		Opt  optInt
		N    int
	}
	v := T{When: time.Time{}.In(time.FixedZone("x", 3600)), Opt: optInt{V: 7, Valid: false}, N: 0}
	skip := mkCtx(true, false)
	ts, err := marshalTokens(v, &skip)
	repM.Evaluations++
	repM.count("api:skip-empty-iszero-method")
	names := map[string]bool{}
	depth := 0
	for i, t := range ts {
		switch t.Kind {
		case sb.KindObject:
			depth++
		case sb.KindObjectEnd:
			depth--
		case sb.KindString:
			if depth == 1 && i > 0 && (ts[i-1].Kind == sb.KindObject || true) {
				if s, ok := t.Value.(string); ok && (s == "When" || s == "Opt" || s == "N") {
					names[s] = true
				}
			}
		}
	}
	if err != nil || !names["When"] || !names["Opt"] || names["N"] {
		repM.violate("C16", "skip-empty-drops-non-empty", fmt.Sprintf("under skip-empty a time.Time with a location (not the Go zero value, IsZero() true) and a struct {V:7 Valid:false} with an IsZero method must be kept, the zero int dropped: got [%s] (%v)", truncate(descTokens(ts), 300), err), "fields whose IsZero() method says true although they are not zero values")
		repM.violate("C08", "skip-empty-drops-non-empty", fmt.Sprintf("got [%s] (%v)", truncate(descTokens(ts), 300), err), "fields whose IsZero() method says true although they are not zero values")
	}
}

// Compare walks its two streams in lock step: when the left one fails, the right one has not been advanced further
func apiCompareLockStep(rep *Report) {
	ts := []sb.Token{tokI(1), tokS("a"), tokI(2), tokS("b"), tokI(3)}
	for at := 0; at <= len(ts); at++ {
		pulls := 0
		var right sb.Proc
		i := 0
		right = func(t *sb.Token) (sb.Proc, error) {
			pulls++
			if i >= len(ts) {
				return nil, nil
			}
			*t = ts[i]
			i++
			return right, nil
		}
		_, err := sb.Compare(faultyAt(ts, at), &right)
		rep.Evaluations++
		rep.count("api:compare-lock-step")
		if classOf(err) != "EFault" || pulls != at {
			rep.violate("C06", "not-lock-step", fmt.Sprintf("the left stream fails at its pull %d: Compare returns %v and has pulled the right stream %d times, expected %d", at+1, err, pulls, at), "Compare with a failing left stream")
			rep.violate("C15", "fault-prefix", fmt.Sprintf("the left stream fails at its pull %d: Compare returns %v and has pulled the right stream %d times, expected %d", at+1, err, pulls, at), "Compare with a failing left stream")
		}
	}
}

// a writer that refuses ONE call at a token boundary: the token offered again to the same sink completes the output
type hiccupWriter struct {
	buf    bytes.Buffer
	calls  int
	failAt int
}

func (w *hiccupWriter) Write(p []byte) (int, error) {
	w.calls++
	if w.calls == w.failAt {
		return 0, errInjected
	}
	return w.buf.Write(p)
}

func apiEncodeRetry(rep *Report) {
	ts := []sb.Token{tokI(1), tokS("abc"), tokK(sb.KindNil), {Kind: sb.KindBytes, Value: []byte("xy")}, tokI(2)}
	want := runEncode(ts, 0, 0).bytes
	// write-call index at which each token starts (plain writer)
	starts := []int{}
	{
		w, cw := mkWriter(0, 0)
		sink := sb.Encode(w)
		for i := range ts {
			starts = append(starts, cw.calls+1)
			tk := ts[i]
			sink, _ = sink(&tk)
		}
	}
	for k, st := range starts {
		w := &hiccupWriter{failAt: st}
		sink := sb.Encode(w)
		ok := true
		for i := 0; i < len(ts) && ok; i++ {
			tk := ts[i]
			next, e := sink(&tk)
			if e != nil {
				if i != k || classOf(e) != "EFault" {
					ok = false
					break
				}
				tk = ts[i]
				next, e = sink(&tk) // the same token again, on the sink we hold
				if e != nil {
					ok = false
					break
				}
			}
			sink = next
		}
		rep.Evaluations++
		rep.count("api:encode-retry")
		if !ok || !bytes.Equal(w.buf.Bytes(), want) {
			rep.violate("C03", "encode-not-resumable", fmt.Sprintf("the writer refused the first write of token %d once; offering the token again to the same sink gives %x, the stream encodes to %x", k, w.buf.Bytes(), want), "transient writer fault at a token boundary")
			rep.violate("C15", "encode-not-resumable", fmt.Sprintf("the writer refused the first write of token %d once; offering the token again to the same sink gives %x, the stream encodes to %x", k, w.buf.Bytes(), want), "transient writer fault at a token boundary")
		}
	}
}
