package main

import (
	"bytes"
	"fmt"
	"math/rand"
	"reflect"
	"strings"

	"github.com/reusee/sb"
)

type stageSpec struct {
	kind string
	sel  []int // StSubstDeref: node indices to replace
	pick int   // StTee3
}

var stageKinds = []string{"StAny", "StCodec", "StTokens", "StTree", "StTreeFunc", "StSubstDeref", "StIterStream", "StEmbedded", "StFindRoot", "StTee3", "StTee", "StTeeCodec", "StCollect", "StCollectValue", "StSinkMarshal", "StTupleWrap"}

func (s stageSpec) coq() string {
	switch s.kind {
	case "StSubstDeref":
		return "(StSubstDeref " + coqNats(s.sel) + ")"
	case "StTee3":
		return fmt.Sprintf("(StTee3 %d%%nat)", s.pick)
	}
	return s.kind
}

// apply one stage to a token list with the real library (mirrors fuzz.go's transforms, with
// every random choice made explicit in the stage spec)
func applyStage(s *stageSpec, in []sb.Token, f hashFn, r *rand.Rand) (out []sb.Token, err error) {
	err = guard(func() error {
		stream := tokensFrom(in)
		var res sb.Stream
		switch s.kind {
		case "StAny":
			var v any
			if e := copyBudget(stream, sb.Unmarshal(&v)); e != nil {
				return e
			}
			res = sb.Marshal(v)
		case "StCodec":
			buf := new(bytes.Buffer)
			if e := sb.Copy(stream, sb.Encode(buf)); e != nil {
				return e
			}
			res = sb.Decode(buf)
		case "StTokens":
			ts, e := sb.TokensFromStream(stream)
			if e != nil {
				return e
			}
			res = ts.Iter()
		case "StTree":
			t, e := sb.TreeFromStream(stream)
			if e != nil {
				return e
			}
			if t.Token == nil {
				res = sb.Tokens(nil).Iter()
			} else {
				res = t.Iter()
			}
		case "StTreeFunc":
			t, e := sb.TreeFromStream(stream)
			if e != nil {
				return e
			}
			if t.Token == nil {
				res = sb.Tokens(nil).Iter()
			} else {
				res = t.IterFunc(func(*sb.Tree) (*sb.Token, error) { return nil, nil })
			}
		case "StSubstDeref":
			tr, e := buildTree(in, nil)
			if e != nil {
				return e
			}
			if tr.tree.Token == nil {
				res = sb.Tokens(nil).Iter()
				break
			}
			if e := tr.tree.FillHash(f.new); e != nil {
				return e
			}
			// choose the selection on first use: an antichain of value nodes
			if s.sel == nil {
				s.sel = []int{}
				var walk func(t *sb.Tree)
				walk = func(t *sb.Tree) {
					if isEndKind(t.Kind) {
						return
					}
					if r.Intn(3) == 0 {
						s.sel = append(s.sel, tr.idx[t])
						return
					}
					for _, sub := range t.Subs {
						walk(sub)
					}
				}
				walk(tr.tree)
			}
			selSet := map[int]bool{}
			for _, i := range s.sel {
				selSet[i] = true
			}
			type ref struct {
				tree *sb.Tree
				hash []byte
			}
			var refs []ref
			refed := tr.tree.IterFunc(func(t *sb.Tree) (*sb.Token, error) {
				if !selSet[tr.idx[t]] {
					return nil, nil
				}
				refs = append(refs, ref{t, t.Hash})
				return &sb.Token{Kind: sb.KindRef, Value: t.Hash}, nil
			})
			res = sb.Deref(refed, func(h []byte) (sb.Stream, error) {
				for _, rf := range refs {
					if bytes.Equal(rf.hash, h) {
						return rf.tree.Iter(), nil
					}
				}
				return nil, nil
			})
		case "StIterStream":
			p := sb.IterStream(stream, nil)
			res = &p
		case "StEmbedded":
			res = sb.Marshal(sb.IterStream(stream, nil))
		case "StFindRoot":
			sum, e := sinkHash(in, f)
			if e != nil {
				return e
			}
			sub, e := sb.FindByHash(stream, sum, f.new)
			if e != nil {
				return e
			}
			res = sub
		case "StTee3":
			var ts [3]any
			if e := sb.Copy(sb.Tee(stream, sb.Unmarshal(&ts[0]), sb.Unmarshal(&ts[1]), sb.Unmarshal(&ts[2])), sb.Discard); e != nil {
				return e
			}
			res = sb.Marshal(ts[s.pick])
		case "StTee":
			res = sb.Tee(stream)
		case "StTeeCodec":
			buf := new(bytes.Buffer)
			if e := sb.Copy(sb.Tee(stream, sb.Encode(buf)), sb.Discard); e != nil {
				return e
			}
			res = sb.Decode(buf)
		case "StCollect":
			var ts sb.Tokens
			if e := sb.Copy(stream, sb.CollectTokens(&ts)); e != nil {
				return e
			}
			res = ts.Iter()
		case "StCollectValue":
			var ts sb.Tokens
			if e := sb.Copy(stream, sb.CollectValueTokens(&ts)); e != nil {
				return e
			}
			res = ts.Iter()
		case "StSinkMarshal":
			var ts sb.Tokens
			if _, e := sb.CollectTokens(&ts).Marshal(stream); e != nil {
				return e
			}
			res = ts.Iter()
		case "StTupleWrap":
			var v any
			if e := copyBudget(stream, sb.Unmarshal(&v)); e != nil {
				return e
			}
			var tuple sb.Tuple
			if e := sb.Copy(sb.Marshal(sb.Tuple{v}), sb.Unmarshal(&tuple)); e != nil {
				return e
			}
			res = sb.Marshal(tuple[0])
		}
		var e error
		out, e = collectN(res, 1_000_000)
		return e
	})
	return
}

func famPipeline(dir string, seed int64, tier string) {
	thorough := tier == "thorough"
	rep := newReport("pipeline", seed, tier)
	rep.Rule = "programs: every composition of length <= 2 of the 16 stage kinds (272, spread over the inputs) and random compositions of length 1..24, all random choices (nodes to substitute, which of three targets to keep) fixed in the program; inputs: value streams that are stable under schema-less decoding (marshalled from `any`-decoded generated values); non-trivial = program length >= 1 and input >= 2 tokens"
	w := newCaseWriter(dir, "pipeline", "Corr_pipeline", "pipe_case", "check_pipe", 60, rep)
	r := newRand(seed, "pipeline")
	// pointer types to registered types, registered themselves: marshalling emits DIRECTLY NESTED type names
	// (TypeName "*main.RegInt", TypeName "main.RegInt", Int32), stable under schema-less decoding
	pRegInt := reflect.PtrTo(reflect.TypeOf(RegInt(0)))
	ppRegPoint := reflect.PtrTo(reflect.PtrTo(reflect.TypeOf(RegPoint{})))
	registerExtra(pRegInt, reflect.PtrTo(reflect.TypeOf(RegPoint{})), ppRegPoint)
	reg := coqRegistry()
	// inputs
	var inputs, deepInputs [][]sb.Token
	ri1, ri2 := RegInt(7), RegInt(-1)
	rp := &RegPoint{X: 3, Y: 4}
	directed := []any{
		[]any{&ri1, 5, &ri2},
		[]any{2, &ri1},
		map[string]any{"a": &ri1, "b": []any{&rp, "s"}},
		&ri2,
		[]any{[]any{&rp}, &ri1, &ri1},
		func() (any, any, int) { return &ri1, &rp, 1 },
		func() (any, any) { return 1, nil },
		func() (any, any, any) { return "a", nil, nil },
		[]any{func() (any, any) { return 2, nil }, nil, 3},
		UniFields{Größe: 3, Δt: 1.5, Ω: "o", Ärger: []int{1}, A1_b: true},
	}
	// values nested deeper than any fixed frame stack an iterator might preallocate (33, 65, 129 levels ...),
	// with a sibling next to every nested value so that a repeated or dropped subtree shows
	for _, d := range []int{31, 32, 33, 34, 40, 64, 65, 66, 129, 130} {
		var v any = "leaf"
		for i := 0; i < d; i++ {
			switch i % 3 {
			case 0:
				v = []any{v, i}
			case 1:
				v = map[string]any{"k": v, "z": i}
			default:
				v = []any{i, v}
			}
		}
		directed = append(directed, v)
	}
	nShallow := 9 // (the input with non-ASCII field names goes with the deep ones: Go oracles only - the model knows ASCII identifiers)
	for di, v := range directed {
		ts, err := marshalTokens(v, nil)
		if err != nil {
			continue
		}
		// (the directed inputs are inside the schema-less domain by construction: decoding them into `any` and
		// marshalling the result again IS the identity - the stage StAnyRoundTrip on its own)
		var x any
		if e := guard(func() error { return copyBudget(tokensFrom(ts), sb.Unmarshal(&x)) }); e != nil {
			rep.count("directed-input-not-decodable")
			rep.violate("C13", "pipeline-error", fmt.Sprintf("unmarshalling a value stream of the schema-less domain into `any` failed: %v", e), fmt.Sprintf("directed input %d: [%s]", di, truncate(descTokens(ts), 300)))
			continue
		}
		if ts2, e2 := marshalTokens(x, nil); e2 != nil || !tokensExactEq(ts, ts2) {
			rep.count("directed-input-not-stable")
			rep.violate("C13", "pipeline-not-identity", fmt.Sprintf("unmarshal into `any`, then marshal: [%s] (%v) differs from the input", truncate(descTokens(ts2), 300), e2), fmt.Sprintf("directed input %d: [%s]", di, truncate(descTokens(ts), 300)))
			continue
		}
		rep.count("directed-input")
		if di >= nShallow {
			deepInputs = append(deepInputs, ts)
			continue
		}
		inputs = append(inputs, ts)
	}
	for len(inputs) < 40 {
		t := randType(r, 1+r.Intn(3))
		v := randGoValue(r, t, 3)
		if hasBadMapKey(v) || hasTiedKeys(v) || hasCompositeIfaceKey(v) {
			continue
		}
		ts, err := marshalTokens(v.Interface(), nil)
		if err != nil || len(ts) > 60 {
			continue
		}
		var x any
		if e := guard(func() error { return copyBudget(tokensFrom(ts), sb.Unmarshal(&x)) }); e != nil {
			continue
		}
		ts2, e2 := marshalTokens(x, nil)
		if e2 != nil || !tokensExactEq(ts, ts2) {
			continue
		}
		inputs = append(inputs, ts)
	}
	var programs [][]stageSpec
	for _, a := range stageKinds {
		programs = append(programs, []stageSpec{{kind: a}})
		for _, b := range stageKinds {
			programs = append(programs, []stageSpec{{kind: a}, {kind: b}})
		}
	}
	nrand := 150
	if thorough {
		nrand = 5000
	}
	for i := 0; i < nrand; i++ {
		n := 1 + r.Intn(24)
		p := make([]stageSpec, n)
		for j := range p {
			p[j] = stageSpec{kind: stageKinds[r.Intn(len(stageKinds))]}
		}
		programs = append(programs, p)
	}
	// the deep inputs through every single stage and a few longer programs (Go oracles only: the stage model's
	// fuel constant is sized for the generated depths)
	for di, in := range deepInputs {
		var progs [][]stageSpec
		for _, a := range stageKinds {
			progs = append(progs, []stageSpec{{kind: a}})
		}
		for i := 0; i < 4; i++ {
			p := make([]stageSpec, 2+r.Intn(4))
			for j := range p {
				p[j] = stageSpec{kind: stageKinds[r.Intn(len(stageKinds))]}
			}
			progs = append(progs, p)
		}
		for pi, prog := range progs {
			f := hashFns[(di+pi)%2]
			cur := in
			var err error
			var names []string
			for si := range prog {
				if prog[si].kind == "StTee3" {
					prog[si].pick = r.Intn(3)
				}
				names = append(names, prog[si].kind)
				cur, err = applyStage(&prog[si], cur, f, r)
				if err != nil {
					break
				}
			}
			rep.Evaluations++
			rep.count("deep-input")
			desc := fmt.Sprintf("H=%s program=[%s] input=a value nested %d tokens deep (%d tokens)", f.name, strings.Join(names, "; "), maxDepth(in), len(in))
			if err != nil {
				rep.violate("C13", "pipeline-error", fmt.Sprintf("an identity-preserving pipeline failed: %v", err), desc)
			} else if !tokensExactEq(cur, in) {
				rep.violate("C13", "pipeline-not-identity", fmt.Sprintf("output (%d tokens) differs from the input (%d tokens)", len(cur), len(in)), desc)
			} else {
				h1, _ := sinkHash(in, f)
				h2, _ := sinkHash(cur, f)
				if !bytes.Equal(h1, h2) {
					rep.violate("C13", "pipeline-hash", "the output's hash differs from the input's", desc)
				}
			}
		}
	}
	for pi, prog := range programs {
		in := inputs[pi%len(inputs)]
		f := hashFns[pi%2]
		cur := in
		var err error
		for si := range prog {
			if prog[si].kind == "StTee3" {
				prog[si].pick = r.Intn(3)
			}
			cur, err = applyStage(&prog[si], cur, f, r)
			if err != nil {
				break
			}
		}
		for si := range prog {
			if prog[si].kind == "StSubstDeref" && prog[si].sel == nil {
				prog[si].sel = []int{}
			}
		}
		rep.Evaluations++
		rep.count(fmt.Sprintf("len:%d", minInt(len(prog), 25)))
		var names []string
		for _, s := range prog {
			names = append(names, s.coq())
		}
		desc := fmt.Sprintf("H=%s program=[%s] input=[%s]", f.name, strings.Join(names, "; "), truncate(descTokens(in), 300))
		if err != nil {
			rep.violate("C13", "pipeline-error", fmt.Sprintf("an identity-preserving pipeline failed: %v", err), desc)
		} else {
			if !tokensExactEq(cur, in) {
				rep.violate("C13", "pipeline-not-identity", fmt.Sprintf("output [%s] differs from the input", truncate(descTokens(cur), 300)), desc)
			}
			h1, _ := sinkHash(in, f)
			h2, _ := sinkHash(cur, f)
			if !bytes.Equal(h1, h2) {
				rep.violate("C13", "pipeline-hash", "the output's hash differs from the input's", desc)
			}
		}
		w.add(fmt.Sprintf("PipeCase [%s] %s %d %s %s %s", strings.Join(names, "; "), coqTokens(in), f.id, reg, floatTable(in), sobs(cur, err)), desc, len(in) >= 2)
	}
	apiFindRefs(rep)
	w.flush()
	rep.write(dir)
}

func maxDepth(ts []sb.Token) int {
	d, m := 0, 0
	for _, t := range ts {
		switch t.Kind {
		case sb.KindArray, sb.KindObject, sb.KindMap, sb.KindTuple:
			d++
			if d > m {
				m = d
			}
		case sb.KindArrayEnd, sb.KindObjectEnd, sb.KindMapEnd, sb.KindTupleEnd:
			d--
		}
	}
	return m
}
