package main

import (
	"bytes"
	"crypto/md5"
	"crypto/sha1"
	"crypto/sha256"
	"encoding/binary"
	"fmt"
	"hash"
	"hash/fnv"
	"hash/maphash"
	"math"
	"math/rand"
	"sort"
	"strings"
	"time"

	"github.com/reusee/sb"
)

// ---------------------------------------------------------------------------
// abstract values on the Go side
// ---------------------------------------------------------------------------

type gval struct {
	leaf  *sb.Token // leaf token
	open  sb.Kind   // compound opening kind (0 = not a compound)
	close sb.Kind
	items []*gval
	name  string // type name (named != nil)
	named *gval
}

func (v *gval) flatten(out []sb.Token) []sb.Token {
	switch {
	case v.leaf != nil:
		return append(out, *v.leaf)
	case v.named != nil:
		out = append(out, sb.Token{Kind: sb.KindTypeName, Value: v.name})
		return v.named.flatten(out)
	default:
		out = append(out, sb.Token{Kind: v.open})
		for _, it := range v.items {
			out = it.flatten(out)
		}
		return append(out, sb.Token{Kind: v.close})
	}
}

func (v *gval) subvalues(out []*gval) []*gval {
	out = append(out, v)
	if v.named != nil {
		return v.named.subvalues(out)
	}
	for _, it := range v.items {
		out = it.subvalues(out)
	}
	return out
}

var endOf = map[sb.Kind]sb.Kind{sb.KindArray: sb.KindArrayEnd, sb.KindObject: sb.KindObjectEnd, sb.KindMap: sb.KindMapEnd, sb.KindTuple: sb.KindTupleEnd}
var openKinds = []sb.Kind{sb.KindArray, sb.KindObject, sb.KindMap, sb.KindTuple}

func randLeafToken(r *rand.Rand, withRef bool) sb.Token {
	for {
		t := randToken(r)
		switch t.Kind {
		case sb.KindArray, sb.KindObject, sb.KindMap, sb.KindTuple,
			sb.KindArrayEnd, sb.KindObjectEnd, sb.KindMapEnd, sb.KindTupleEnd, sb.KindTypeName:
			continue
		case sb.KindRef:
			if !withRef {
				continue
			}
			// a reference's payload is a digest: keep it non-empty
			if len(t.Value.([]byte)) == 0 {
				t.Value = payload(r, 16)
			}
		}
		if s, ok := t.Value.(string); ok && len(s) > 40 {
			t.Value = s[:40]
		}
		if s, ok := t.Value.([]byte); ok && len(s) > 40 {
			t.Value = s[:40]
		}
		return t
	}
}

func randValue(r *rand.Rand, depth int, withRef bool) *gval {
	c := r.Intn(10)
	if depth <= 0 || c < 4 {
		t := randLeafToken(r, withRef)
		return &gval{leaf: &t}
	}
	if c < 6 {
		names := []string{"T", "pkg.Type", "", "a/b.C", "*x.Y", string(payload(r, 1+r.Intn(5)))}
		return &gval{name: names[r.Intn(len(names))], named: randValue(r, depth-1, withRef)}
	}
	k := openKinds[r.Intn(4)]
	n := r.Intn(4)
	v := &gval{open: k, close: endOf[k]}
	for i := 0; i < n; i++ {
		v.items = append(v.items, randValue(r, depth-1, withRef))
	}
	return v
}

// ---------------------------------------------------------------------------
// hash functions
// ---------------------------------------------------------------------------

type hashFn struct {
	name string
	id   int // 0,1 = implemented in the Coq model; -1 = Go reference only
	new  func() hash.Hash
}

var mapSeed = maphash.MakeSeed()

var hashFns = []hashFn{
	{"fnv-128", 0, func() hash.Hash { return fnv.New128() }},
	{"fnv-128a", 1, func() hash.Hash { return fnv.New128a() }},
	{"sha256", -1, sha256.New},
	{"sha1", -1, sha1.New},
	{"md5", -1, md5.New},
	{"maphash(seeded)", -1, func() hash.Hash { h := new(maphash.Hash); h.SetSeed(mapSeed); return h }},
	// functions whose state has the same Go type as an earlier one (per-type caches must not leak between them)
	{"sha224", -1, sha256.New224},
	{"maphash(second seed)", -1, func() hash.Hash { h := new(maphash.Hash); h.SetSeed(mapSeed2); return h }},
	// a constructor whose fresh state is NOT its Reset state (domain separation by a written prefix): the Merkle
	// function calls the constructor for every node, an implementation may not substitute Reset for it
	{"salted-sha256", -1, func() hash.Hash { h := sha256.New(); h.Write([]byte("verif-salt")); return h }},
}

var mapSeed2 = maphash.MakeSeed()

// independent reference: the Merkle function of the property text
func refLeafPayload(v any) []byte {
	b8 := make([]byte, 8)
	switch x := v.(type) {
	case nil:
		return nil
	case bool:
		if x {
			return []byte{1}
		}
		return []byte{0}
	case int:
		binary.LittleEndian.PutUint64(b8, uint64(x))
		return b8
	case int8:
		return []byte{byte(x)}
	case int16:
		binary.LittleEndian.PutUint16(b8, uint16(x))
		return b8[:2]
	case int32:
		binary.LittleEndian.PutUint32(b8, uint32(x))
		return b8[:4]
	case int64:
		binary.LittleEndian.PutUint64(b8, uint64(x))
		return b8
	case uint:
		binary.LittleEndian.PutUint64(b8, uint64(x))
		return b8
	case uint8:
		return []byte{x}
	case uint16:
		binary.LittleEndian.PutUint16(b8, x)
		return b8[:2]
	case uint32:
		binary.LittleEndian.PutUint32(b8, x)
		return b8[:4]
	case uint64:
		binary.LittleEndian.PutUint64(b8, x)
		return b8
	case uintptr:
		binary.LittleEndian.PutUint64(b8, uint64(x))
		return b8
	case float32:
		binary.LittleEndian.PutUint32(b8, math.Float32bits(x))
		return b8[:4]
	case float64:
		binary.LittleEndian.PutUint64(b8, math.Float64bits(x))
		return b8
	case string:
		return []byte(x)
	case []byte:
		return x
	}
	panic("refLeafPayload")
}

func hsum(f hashFn, parts ...[]byte) []byte {
	h := f.new()
	for _, p := range parts {
		h.Write(p)
	}
	return h.Sum(nil)
}

func refMhash(f hashFn, v *gval) []byte {
	switch {
	case v.leaf != nil:
		if v.leaf.Kind == sb.KindRef {
			return v.leaf.Value.([]byte)
		}
		return hsum(f, []byte{byte(v.leaf.Kind)}, refLeafPayload(v.leaf.Value))
	case v.named != nil:
		return hsum(f, []byte{byte(sb.KindTypeName)}, []byte(v.name), refMhash(f, v.named))
	default:
		parts := [][]byte{{byte(v.open)}}
		for _, it := range v.items {
			parts = append(parts, refMhash(f, it))
		}
		parts = append(parts, hsum(f, []byte{byte(v.close)}))
		return hsum(f, parts...)
	}
}

// ---------------------------------------------------------------------------
// implementation runners
// ---------------------------------------------------------------------------

func sinkHash(ts []sb.Token, f hashFn) ([]byte, error) {
	var sum []byte
	err := guard(func() error { return sb.Copy(tokensFrom(ts), sb.Hash(f.new, &sum, nil)) })
	return sum, err
}

type hevent struct {
	sum []byte // nil = the nil call
	idx int
}

func sinkEvents(ts []sb.Token, f hashFn) ([]hevent, error) {
	var evs []hevent
	open := map[*sb.Token]int{}
	n := 0
	var curPtr *sb.Token
	cur := -1
	err := guard(func() error {
		return sb.Copy(tokensFrom(ts), sb.HashFunc(f.new, nil, func(h []byte, t *sb.Token) error {
			var idx int
			if h == nil || (t.Kind == sb.KindRef && t != curPtr) {
				// first call for a new token
				idx = n
				n++
				cur, curPtr = idx, t
				switch t.Kind {
				case sb.KindArray, sb.KindObject, sb.KindMap, sb.KindTuple, sb.KindTypeName:
					open[t] = idx
				}
			} else if t == curPtr {
				idx = cur
			} else if i, ok := open[t]; ok {
				idx = i
			} else {
				idx = -1
			}
			var c []byte
			if h != nil {
				c = append([]byte{}, h...)
			}
			evs = append(evs, hevent{c, idx})
			return nil
		}, nil))
	})
	return evs, err
}

func fillHashRoot(ts []sb.Token, f hashFn) ([]byte, error) {
	var sum []byte
	err := guard(func() error {
		tree, err := sb.TreeFromStream(tokensFrom(ts))
		if err != nil {
			return err
		}
		if tree.Token == nil {
			return errEmptyTree // FillHash panics on the empty tree by contract: not called
		}
		if err := tree.FillHash(f.new); err != nil {
			return err
		}
		sum = tree.Hash
		return nil
	})
	return sum, err
}

func withHashRoot(ts []sb.Token, f hashFn) ([]byte, error) {
	var sum []byte
	err := guard(func() error {
		tree, err := sb.TreeFromStream(tokensFrom(ts), sb.WithHash{NewHashState: f.new})
		if err != nil {
			return err
		}
		sum = tree.Hash
		return nil
	})
	return sum, err
}

var errEmptyTree = fmt.Errorf("verif: empty tree")

func dobs(sum []byte, err error) string {
	if err == errEmptyTree {
		return "DNone"
	}
	if err != nil {
		return "(DErrC " + classOf(err) + ")"
	}
	return "(DSum " + coqRLE(sum) + ")"
}

func coqEvents(evs []hevent) string {
	var b strings.Builder
	b.WriteString("[")
	for i, e := range evs {
		if i > 0 {
			b.WriteString("; ")
		}
		if e.sum == nil {
			fmt.Fprintf(&b, "(None, %d%%nat)", e.idx)
		} else {
			fmt.Fprintf(&b, "(Some %s, %d%%nat)", coqRLE(e.sum), e.idx)
		}
	}
	b.WriteString("]")
	return b.String()
}

// ---- trees ----

type treeRender struct {
	tree *sb.Tree
	idx  map[*sb.Tree]int
}

func buildTree(ts []sb.Token, f *hashFn) (*treeRender, error) {
	tr := &treeRender{idx: map[*sb.Tree]int{}}
	n := 0
	err := guard(func() error {
		opts := []sb.TreeOption{sb.TapTree{Func: func(t *sb.Tree) {
			if _, ok := tr.idx[t]; !ok {
				tr.idx[t] = n
				n++
			}
		}}}
		if f != nil {
			opts = append(opts, sb.WithHash{NewHashState: f.new})
		}
		var err error
		tr.tree, err = sb.TreeFromStream(tokensFrom(ts), opts...)
		return err
	})
	return tr, err
}

func (tr *treeRender) render(t *sb.Tree) string {
	var b strings.Builder
	paired := "None"
	if t.Paired != nil {
		paired = fmt.Sprintf("(Some %d%%nat)", tr.idx[t.Paired])
	}
	h := "None"
	if len(t.Hash) > 0 {
		h = "(Some " + coqRLE(t.Hash) + ")"
	}
	fmt.Fprintf(&b, "RN %d%%nat %s %s [", tr.idx[t], paired, h)
	for i, s := range t.Subs {
		if i > 0 {
			b.WriteString("; ")
		}
		b.WriteString("(" + tr.render(s) + ")")
	}
	b.WriteString("]")
	return b.String()
}

func tobs(tr *treeRender, err error) string {
	if err != nil {
		return "(TErr " + classOf(err) + ")"
	}
	if tr.tree.Token == nil {
		return "(TOk None)"
	}
	return "(TOk (Some (" + tr.render(tr.tree) + ")))"
}

func sobs(ts []sb.Token, err error) string {
	if err == errEmptyTree {
		return "SNone"
	}
	if err != nil {
		return "(SErrC " + classOf(err) + ")"
	}
	return "(SOk " + coqTokens(ts) + ")"
}

func allNodes(t *sb.Tree, out []*sb.Tree) []*sb.Tree {
	out = append(out, t)
	for _, s := range t.Subs {
		out = allNodes(s, out)
	}
	return out
}

func isEndKind(k sb.Kind) bool {
	return k == sb.KindArrayEnd || k == sb.KindObjectEnd || k == sb.KindMapEnd || k == sb.KindTupleEnd
}

// ---------------------------------------------------------------------------
// the hash / tree / refs families
// ---------------------------------------------------------------------------

var derefLeaked int

func famHash(dir string, seed int64, tier string) {
	thorough := tier == "thorough"
	repH := newReport("hash", seed, tier)
	repH.Rule = "well-formed value streams from the token grammar (all leaf kinds incl. Ref/Min/Max/Literal, compounds, nested and directly nested type names, depth<=5) plus malformed streams (unclosed, stray end, two values, empty); x hash function {fnv-128, fnv-128a through the Coq model; sha256, sha1, md5, seeded maphash against the Go reference mhash}; non-trivial = at least 2 tokens; distinct by case text"
	repT := newReport("tree", seed, tier)
	repT.Rule = "same streams: rendered TreeFromStream with and without WithHash, Iter, IterFunc(no replacement), FindByHash for the hash of every node plus absent keys; non-trivial = at least 2 tokens"
	repR := newReport("refs", seed, tier)
	repR.Rule = "value streams x antichains of sub-value nodes replaced by references (exhaustive over node subsets for trees with <= 7 value nodes, random subsets otherwise) x resolver behaviour (resolve / decline / fail per reference); non-trivial = at least one node selected"
	wH := newCaseWriter(dir, "hash", "Corr_hash", "hash_case", "check_hash", 150, repH)
	wT := newCaseWriter(dir, "tree", "Corr_hash", "tree_case", "check_tree", 60, repT)
	wR := newCaseWriter(dir, "refs", "Corr_hash", "ref_case", "check_ref", 150, repR)
	r := newRand(seed, "hash")

	nvals := 250
	if thorough {
		nvals = 5000
	}
	type item struct {
		ts  []sb.Token
		v   *gval // nil for malformed streams
		tag string
	}
	var items []item
	// hand-made shapes first: the ones the lazy finalisation and the type-name frames are sensitive to
	tk := func(k sb.Kind, v any) *gval { t := sb.Token{Kind: k, Value: v}; return &gval{leaf: &t} }
	arr := func(items ...*gval) *gval { return &gval{open: sb.KindArray, close: sb.KindArrayEnd, items: items} }
	obj := func(items ...*gval) *gval { return &gval{open: sb.KindObject, close: sb.KindObjectEnd, items: items} }
	named := func(n string, v *gval) *gval { return &gval{name: n, named: v} }
	shapes := []*gval{
		tk(sb.KindInt, 42), arr(), arr(tk(sb.KindInt, 1), tk(sb.KindInt, 2), tk(sb.KindInt, 3)),
		named("a", tk(sb.KindInt, 1)), named("a", named("b", tk(sb.KindInt, 1))),
		arr(named("a", named("b", tk(sb.KindInt, 1))), tk(sb.KindInt, 2)),
		arr(named("a", named("b", named("c", arr()))), tk(sb.KindInt, 2), tk(sb.KindInt, 3)),
		arr(named("a", arr(tk(sb.KindInt, 1))), tk(sb.KindInt, 2)),
		obj(tk(sb.KindString, "Foo"), arr(arr(), arr(arr())), tk(sb.KindString, "Bar"), named("t", obj())),
		arr(tk(sb.KindRef, []byte("0123456789abcdef")), tk(sb.KindRef, []byte("0123456789abcdef"))),
		tk(sb.KindRef, []byte("0123456789abcdef")), named("x", tk(sb.KindRef, []byte("0123456789abcdef"))),
		arr(tk(sb.KindMin, nil), tk(sb.KindMax, nil), tk(sb.KindNil, nil), tk(sb.KindNaN, nil), tk(sb.KindLiteral, "12.5")),
		{open: sb.KindMap, close: sb.KindMapEnd, items: []*gval{tk(sb.KindInt, 1), arr(), tk(sb.KindInt, 2), named("n", arr(arr()))}},
		{open: sb.KindTuple, close: sb.KindTupleEnd, items: []*gval{arr(), arr()}},
	}
	// the same text under different kinds in one tree (a digest remembered per text must not cross kinds)
	for _, txt := range []string{"7", "1234567890123456", "123456789012345678901234567890", ""} {
		shapes = append(shapes,
			arr(tk(sb.KindString, txt), tk(sb.KindLiteral, txt)),
			obj(tk(sb.KindString, "Code"), tk(sb.KindString, txt), tk(sb.KindString, "Count"), tk(sb.KindLiteral, txt)),
			arr(tk(sb.KindLiteral, txt), named(txt+"x", tk(sb.KindString, txt)), tk(sb.KindString, txt), tk(sb.KindBytes, []byte(txt)), tk(sb.KindRef, []byte(txt+"0123456789abcdef")), tk(sb.KindLiteral, txt)))
	}
	nSmallShapes := len(shapes)
	// payload lengths around the sizes of pooled copy buffers (32 KiB and its multiples), for every kind that
	// carries a string or a blob; compressible, so that the model evaluates them too
	for _, n := range []int{32767, 32768, 32769, 65536, 98304} {
		str := strings.Repeat("s", n-1) + "e"
		blob := append(bytes.Repeat([]byte{'b'}, n-1), 'e')
		shapes = append(shapes, tk(sb.KindString, str), tk(sb.KindLiteral, str), tk(sb.KindBytes, blob), tk(sb.KindRef, blob),
			arr(tk(sb.KindString, str), tk(sb.KindInt, 1)))
		if n == 32768 {
			shapes = append(shapes, named(str, tk(sb.KindInt, 1)), arr(tk(sb.KindString, strings.Repeat("s", n-1)+"f")))
		}
	}
	// compounds with more children than fit one pooled buffer of child digests (32 KiB / 32 bytes = 1024, / 16 = 2048)
	for _, wn := range []int{1023, 1024, 1025, 2049, 3000} {
		var kids []*gval
		for i := 0; i < wn; i++ {
			kids = append(kids, tk(sb.KindInt, i))
		}
		shapes = append(shapes, arr(kids...), arr(tk(sb.KindString, "head"), arr(kids...), tk(sb.KindInt, -1)))
	}
	// nesting deeper than a preallocated frame stack (33, 65, 129 levels), a sibling beside every nested value
	for _, d := range []int{32, 33, 34, 65, 66, 130} {
		v := tk(sb.KindInt, 0)
		for i := 0; i < d; i++ {
			if i%4 == 3 {
				v = named("n", v)
			} else if i%2 == 0 {
				v = arr(v, tk(sb.KindInt, i))
			} else {
				v = arr(tk(sb.KindInt, i), v)
			}
		}
		shapes = append(shapes, v)
	}
	for _, v := range shapes {
		items = append(items, item{v.flatten(nil), v, "shape"})
	}
	nModelShapes := len(shapes)
	for i := 0; i < nvals; i++ {
		v := randValue(r, 1+r.Intn(5), r.Intn(3) == 0)
		ts := v.flatten(nil)
		if len(ts) > 60 {
			continue
		}
		items = append(items, item{ts, v, "value"})
	}
	// malformed streams
	items = append(items, item{nil, nil, "empty"})
	for i := 0; i < nvals/5; i++ {
		v := randValue(r, 1+r.Intn(3), false)
		ts := v.flatten(nil)
		switch r.Intn(5) {
		case 0: // unclosed
			ts = ts[:r.Intn(len(ts))]
		case 1: // stray end marker
			ts = append(ts, sb.Token{Kind: sb.KindArrayEnd})
		case 2: // two values
			ts = append(ts, randValue(r, 2, false).flatten(nil)...)
		case 3: // mismatched end
			for j := range ts {
				if isEndKind(ts[j].Kind) {
					ts[j].Kind = sb.KindMapEnd
					break
				}
			}
		default: // stray end at the very beginning
			ts = append([]sb.Token{{Kind: sb.KindTupleEnd}}, ts...)
		}
		if len(ts) <= 40 {
			items = append(items, item{ts, nil, "malformed"})
		}
	}

	_ = nModelShapes
	for n, it := range items {
		ts := it.ts
		// the big and the deep shapes: Go oracles only
		goOnly = n >= nSmallShapes && n < nModelShapes
		desc := it.tag + ": " + truncate(descTokens(ts), 2000)
		repH.count("tag:" + it.tag)
		for _, t := range ts {
			repH.count("kind:" + kindClass(t.Kind))
		}
		for fi, f := range hashFns {
			if f.id < 0 && n%3 != fi%3 && !thorough && n >= len(shapes) {
				continue // the Go-only functions rotate over the cases (all of them on the hand-made shapes)
			}
			s1, e1 := sinkHash(ts, f)
			s2, e2 := fillHashRoot(ts, f)
			s3, e3 := withHashRoot(ts, f)
			repH.Evaluations += 3
			if it.v != nil {
				want := refMhash(f, it.v)
				fdesc := "H=" + f.name + " " + desc
				if n%3 == 0 || n < len(shapes) {
					apiHandDrivenHash(repH, ts, f, want, fdesc)
				}
				if e1 != nil || !bytes.Equal(s1, want) {
					repH.violate("C09", "sink-hash-not-merkle", fmt.Sprintf("Hash = %x (%v), reference Merkle function = %x", s1, e1, want), fdesc)
				}
				if classOf(e2) == "EPanic" {
					repH.violate("C09", "fillhash-panic", fmt.Sprintf("FillHash panicked: %v", e2), fdesc)
				} else if e2 != nil || !bytes.Equal(s2, want) {
					repH.violate("C09", "fillhash-differs", fmt.Sprintf("FillHash = %x (%v), reference = %x", s2, e2, want), fdesc)
				}
				if e3 != nil || !bytes.Equal(s3, want) {
					repH.violate("C09", "withhash-differs", fmt.Sprintf("TreeFromStream(WithHash) root = %x (%v), reference = %x", s3, e3, want), fdesc)
				}
				s1b, _ := sinkHash(ts, f)
				if !bytes.Equal(s1, s1b) {
					repH.violate("C09", "hash-not-deterministic", "two runs gave different digests", fdesc)
				}
				// the same Sink value started again (a sink is a value: starting it twice hashes two streams)
				if n%4 == 0 {
					var sumR []byte
					sinkR := sb.Hash(f.new, &sumR, nil)
					eR1 := guard(func() error { return sb.Copy(tokensFrom(ts), sinkR) })
					first := append([]byte{}, sumR...)
					eR2 := guard(func() error { return sb.Copy(tokensFrom(ts), sinkR) })
					repH.Evaluations += 2
					if eR1 != nil || eR2 != nil || !bytes.Equal(first, want) || !bytes.Equal(sumR, want) {
						repH.violate("C09", "sink-reuse-differs", fmt.Sprintf("the Hash sink value started twice on the same stream gives %x (%v) then %x (%v), reference %x", first, eR1, sumR, eR2, want), fdesc)
					}
				}
			}
			if f.id >= 0 {
				evs, e4 := sinkEvents(ts, f)
				repH.Evaluations++
				_ = e4
				wH.add(fmt.Sprintf("HashCase %s %d %s %s %s %s", coqTokens(ts), f.id, dobs(s1, e1), coqEvents(evs), dobs(s2, e2), dobs(s3, e3)), "H="+f.name+" "+desc, len(ts) >= 2)
			}
		}
		// ---- the sink must neither alias the caller's previous digest nor touch the tokens it reads ----
		if it.v != nil && len(ts) > 0 {
			f := hashFns[2+n%2]
			saved := cloneTokens(ts)
			var sum []byte
			e1 := guard(func() error { return sb.Copy(tokensFrom(ts), sb.Hash(f.new, &sum, nil)) })
			hA := sum // deliberately not copied
			hAcopy := append([]byte{}, sum...)
			other := randValue(r, 2, true).flatten(nil)
			e2 := guard(func() error { return sb.Copy(tokensFrom(other), sb.Hash(f.new, &sum, nil)) })
			repH.Evaluations += 2
			if e1 == nil && e2 == nil && !bytes.Equal(hA, hAcopy) {
				repH.violate("C09", "digest-aliased", fmt.Sprintf("the digest of stream A changed from %x to %x after hashing another stream into the same target variable", hAcopy, hA), "H="+f.name+" A: "+desc+" B: "+descTokens(other))
			}
			if !tokensExactEq(ts, saved) {
				repH.violate("C09", "hash-modifies-tokens", "hashing a stream modified its tokens (a reference payload was overwritten)", "H="+f.name+" "+desc)
			}
			again, e3 := sinkHash(ts, f)
			if e1 == nil && e3 == nil && !bytes.Equal(again, hAcopy) {
				repH.violate("C09", "hash-not-deterministic", fmt.Sprintf("hashing the same token list again gives %x, first run gave %x", again, hAcopy), "H="+f.name+" "+desc)
			}
		}
		// injectivity direction on near-duplicates (sha256): change one leaf token
		if it.v != nil && len(ts) > 0 {
			f := hashFns[2]
			j := r.Intn(len(ts))
			if ts[j].Kind != sb.KindRef && !isEndKind(ts[j].Kind) && endOf[ts[j].Kind] == 0 && ts[j].Kind != sb.KindTypeName {
				ts2 := append([]sb.Token{}, ts...)
				for tries := 0; tries < 10; tries++ {
					nt := randLeafToken(r, false)
					if !tokenExactEq(nt, ts[j]) {
						ts2[j] = nt
						break
					}
				}
				if !tokensExactEq(ts, ts2) {
					a, _ := sinkHash(ts, f)
					b, _ := sinkHash(ts2, f)
					repH.Evaluations += 2
					if bytes.Equal(a, b) {
						repH.violate("C09", "hash-collision-on-different-streams", fmt.Sprintf("different streams hash to %x", a), desc+" vs "+descTokens(ts2))
					}
				}
			}
		}

		// ---- trees ----
		f := hashFns[n%2]
		if goOnly {
			// the big / wide / deep shapes do not go to the model: use the functions the model does not cover
			// (sha256 with its 32-byte digest, the salted constructor whose fresh state is not its Reset state)
			f = hashFns[2]
			if n%2 == 1 {
				f = hashFns[len(hashFns)-1]
			}
		}
		trP, eP := buildTree(ts, nil)
		trW, eW := buildTree(ts, &f)
		repT.Evaluations += 2
		var iterToks, iterfToks []sb.Token
		var eI, eIF error
		if eP == nil && trP.tree.Token != nil {
			iterToks, eI = collect(trP.tree.Iter())
			iterfToks, eIF = collect(trP.tree.IterFunc(func(*sb.Tree) (*sb.Token, error) { return nil, nil }))
		} else if eP == nil {
			eI, eIF = errEmptyTree, errEmptyTree // Iter on the empty tree dereferences a nil token: not called
		} else {
			eI, eIF = eP, eP
		}
		tdesc := "H=" + f.name + " " + desc
		if it.v != nil {
			if eP != nil {
				repT.violate("C12", "tree-build-error", fmt.Sprintf("TreeFromStream failed on a single-value stream: %v", eP), tdesc)
			} else {
				if eI != nil || !tokensExactEq(iterToks, ts) {
					repT.violate("C12", "iter-differs", fmt.Sprintf("tree.Iter() does not reproduce the stream (%v): %s", eI, descTokens(iterToks)), tdesc)
				}
				if eIF != nil || !tokensExactEq(iterfToks, ts) {
					repT.violate("C12", "iterfunc-differs", fmt.Sprintf("tree.IterFunc(no replacement) does not reproduce the stream (%v)", eIF), tdesc)
				}
				if msg := checkShape(trP.tree, it.v); msg != "" {
					repT.violate("C12", "tree-shape", msg, tdesc)
				}
			}
			if eW == nil {
				// hashes attached to nodes equal the hash of the sub-stream rooted there
				if msg := checkNodeHashes(trW.tree, it.v, f); msg != "" {
					repH.violate("C09", "withhash-node-differs", "a tree built with WithHash: "+msg, tdesc)
					repT.violate("C12", "node-hash-wrong", msg, tdesc)
				}
			}
		} else if it.tag == "malformed" {
			if strings.Contains(desc, "") && eP == nil && len(ts) > 0 {
				// stray end / more than one value must be rejected: decided by structure
				if bad := malformedKind(ts); bad != "" {
					repT.violate("C12", "malformed-accepted", "TreeFromStream accepted a stream with "+bad, tdesc)
				}
			}
		}
		// lookups: every sub-value's hash, plus absent keys
		var finds []string
		var keys [][]byte
		if it.v != nil {
			svs := it.v.subvalues(nil)
			if len(svs) > 12 {
				// the whole value and the sub-values with the most direct children always; the rest sampled
				keep := []*gval{svs[0]}
				rest := append([]*gval{}, svs[1:]...)
				sort.SliceStable(rest, func(i, j int) bool { return len(rest[i].items) > len(rest[j].items) })
				keep = append(keep, rest[:3]...)
				rest = rest[3:]
				r.Shuffle(len(rest), func(i, j int) { rest[i], rest[j] = rest[j], rest[i] })
				svs = append(keep, rest[:8]...)
			}
			for _, sv := range svs {
				keys = append(keys, refMhash(f, sv))
			}
		}
		nreal := len(keys)
		keys = append(keys, payload(r, 16), []byte{})
		for ki, key := range keys {
			var res []sb.Token
			var eF error
			eF = guard(func() error {
				s, err := sb.FindByHash(tokensFrom(ts), key, f.new)
				if err != nil {
					return err
				}
				res, err = collect(s)
				return err
			})
			repT.Evaluations++
			if it.v != nil {
				if ki < nreal {
					if eF != nil {
						repT.violate("C12", "find-missing", fmt.Sprintf("FindByHash(%x) = %v although a sub-value has this hash", key, eF), tdesc)
					} else if h, e := sinkHash(res, f); e != nil || !bytes.Equal(h, key) {
						repT.violate("C12", "find-wrong-substream", fmt.Sprintf("FindByHash(%x) returned a stream hashing to %x (%v)", key, h, e), tdesc)
					}
				} else if classOf(eF) != "ENotFound" {
					repT.violate("C12", "find-absent", fmt.Sprintf("FindByHash of an absent key returned %v / %d tokens", eF, len(res)), tdesc)
				}
			}
			finds = append(finds, fmt.Sprintf("(%s, %s)", coqRLE(key), sobs(res, eF)))
		}
		wT.add(fmt.Sprintf("TreeCase %s %d %s %s %s %s [%s]", coqTokens(ts), f.id, tobs(trP, eP), tobs(trW, eW), sobs(iterToks, eI), sobs(iterfToks, eIF), strings.Join(finds, "; ")), tdesc, len(ts) >= 2)

		// ---- references ----
		if it.v != nil && eP == nil {
			refsFor(repR, wR, r, ts, it.v, f, tdesc, thorough)
			// the same with the functions outside the model (Go oracles only), on every fifth value
			if !goOnly && n%5 == 0 && len(ts) < 40 {
				goOnly = true
				for _, fi := range []int{2, len(hashFns) - 1} {
					refsFor(repR, wR, r, ts, it.v, hashFns[fi], "H="+hashFns[fi].name+" "+desc, thorough)
				}
				goOnly = false
			}
		}
	}
	apiTreeEditsStayPrivate(repT, "C12")
	apiDerefResolverBoth(repR)
	apiHashTargetTiming(repH)
	apiHashTargetTiming(repT)
	apiFillHashAfterEdit(repH)
	apiFindRefs(repT)
	apiFindRefs(repR)
	{
		// a tree that was iterated, then edited below the root, then iterated again shows the edit
		base := []sb.Token{tokK(sb.KindArray), tokI(1), tokK(sb.KindArray), tokI(2), tokI(3), tokK(sb.KindArrayEnd), tokK(sb.KindArrayEnd)}
		tr, e := sb.TreeFromStream(tokensFrom(base))
		if e == nil {
			it1, _ := collect(tr.Iter())
			inner := tr.Subs[1]
			inner.Subs[1].Token = &sb.Token{Kind: sb.KindInt, Value: 20}
			it2, _ := collect(tr.Iter())
			want := append([]sb.Token{}, base...)
			want[4] = tokI(20)
			repT.Evaluations++
			if !tokensExactEq(it1, base) || !tokensExactEq(it2, want) {
				repT.violate("C12", "iter-differs", fmt.Sprintf("a tree iterated, edited (a leaf replaced) and iterated again gives [%s], it now holds [%s]", descTokens(it2), descTokens(want)), "tree edited between two iterations")
				repT.violate("C13", "combinator-not-transparent", fmt.Sprintf("a tree iterated, edited (a leaf replaced) and iterated again gives [%s], it now holds [%s]", descTokens(it2), descTokens(want)), "tree edited between two iterations")
			}
		}
	}
	wH.flush()
	wT.flush()
	wR.flush()
	goOnly = false
	repH.write(dir)
	repT.write(dir)
	repR.write(dir)
}

// structure: children are exactly the direct sub-values plus the end marker, paired with the opening node
func checkShape(t *sb.Tree, v *gval) string {
	switch {
	case v.leaf != nil:
		if len(t.Subs) != 0 || !tokenExactEq(*t.Token, *v.leaf) {
			return "leaf node has children or a different token"
		}
	case v.named != nil:
		if t.Kind != sb.KindTypeName || len(t.Subs) != 1 {
			return fmt.Sprintf("type-name node has %d children, expected exactly its value", len(t.Subs))
		}
		return checkShape(t.Subs[0], v.named)
	default:
		if t.Kind != v.open || len(t.Subs) != len(v.items)+1 {
			return fmt.Sprintf("compound node has %d children, expected %d sub-values + end marker", len(t.Subs), len(v.items))
		}
		for i, it := range v.items {
			if m := checkShape(t.Subs[i], it); m != "" {
				return m
			}
		}
		end := t.Subs[len(t.Subs)-1]
		if end.Kind != v.close || end.Paired != t {
			return "end marker is not paired with its opening node"
		}
	}
	return ""
}

func checkNodeHashes(t *sb.Tree, v *gval, f hashFn) string {
	if len(t.Hash) > 0 && !bytes.Equal(t.Hash, refMhash(f, v)) {
		return fmt.Sprintf("node %v carries hash %x, its sub-stream hashes to %x", t.Kind, t.Hash, refMhash(f, v))
	}
	switch {
	case v.named != nil:
		if len(t.Subs) == 1 {
			return checkNodeHashes(t.Subs[0], v.named, f)
		}
	case v.leaf == nil:
		for i, it := range v.items {
			if i < len(t.Subs) {
				if m := checkNodeHashes(t.Subs[i], it, f); m != "" {
					return m
				}
			}
		}
	}
	return ""
}

// which of the two rejected classes a malformed stream belongs to ("" = neither)
func malformedKind(ts []sb.Token) string {
	depth, values := 0, 0
	pendingName := false
	for _, t := range ts {
		switch {
		case endOf[t.Kind] != 0:
			if depth == 0 && !pendingName {
				values++
			}
			pendingName = false
			depth++
		case isEndKind(t.Kind):
			if depth == 0 {
				return "a stray end marker"
			}
			depth--
		case t.Kind == sb.KindTypeName:
			if depth == 0 && !pendingName {
				values++
			}
			pendingName = true
			continue
		default:
			if depth == 0 && !pendingName {
				values++
			}
			pendingName = false
		}
	}
	if values > 1 {
		return "more than one top-level value"
	}
	return ""
}

func refsFor(rep *Report, w *CaseWriter, r *rand.Rand, ts []sb.Token, v *gval, f hashFn, desc string, thorough bool) {
	tr, err := buildTree(ts, nil)
	if err != nil || tr.tree.Token == nil {
		return
	}
	if e := guard(func() error { return tr.tree.FillHash(f.new) }); e != nil {
		return // reported under C09
	}
	nodes := allNodes(tr.tree, nil)
	var cand []*sb.Tree // value nodes (not end markers)
	for _, n := range nodes {
		if !isEndKind(n.Kind) {
			cand = append(cand, n)
		}
	}
	rootHash, _ := sinkHash(ts, f)
	isAnc := func(a, b *sb.Tree) bool { // a is a proper ancestor of b
		var walk func(t *sb.Tree) bool
		walk = func(t *sb.Tree) bool {
			for _, s := range t.Subs {
				if s == b || walk(s) {
					return true
				}
			}
			return false
		}
		return walk(a)
	}
	var selections [][]*sb.Tree
	if len(cand) <= 7 {
		for mask := 1; mask < 1<<uint(len(cand)); mask++ {
			var sel []*sb.Tree
			for i, c := range cand {
				if mask>>uint(i)&1 == 1 {
					sel = append(sel, c)
				}
			}
			ok := true
			for _, a := range sel {
				for _, b := range sel {
					if a != b && isAnc(a, b) {
						ok = false
					}
				}
			}
			if ok {
				selections = append(selections, sel)
			}
		}
		if len(selections) > 24 && !thorough {
			r.Shuffle(len(selections), func(i, j int) { selections[i], selections[j] = selections[j], selections[i] })
			selections = selections[:24]
		}
	} else {
		for k := 0; k < 4; k++ {
			var sel []*sb.Tree
			for _, c := range cand {
				if r.Intn(4) == 0 {
					ok := true
					for _, a := range sel {
						if isAnc(a, c) || isAnc(c, a) {
							ok = false
						}
					}
					if ok {
						sel = append(sel, c)
					}
				}
			}
			if len(sel) > 0 {
				selections = append(selections, sel)
			}
		}
	}
	for si, sel := range selections {
		selSet := map[*sb.Tree]bool{}
		var selIdx, declIdx, failIdx []int
		decl := map[string]bool{}
		fail := map[string]bool{}
		for _, n := range sel {
			selSet[n] = true
			selIdx = append(selIdx, tr.idx[n])
		}
		mode := si % 4 // 0,1: resolve all; 2: decline some; 3: fail one
		for _, n := range sel {
			if mode == 2 && r.Intn(2) == 0 {
				decl[string(n.Hash)] = true
			}
		}
		if mode == 3 {
			n := sel[r.Intn(len(sel))]
			fail[string(n.Hash)] = true
		}
		// equal hashes share the resolver's decision
		for _, n := range sel {
			if decl[string(n.Hash)] {
				declIdx = append(declIdx, tr.idx[n])
			}
			if fail[string(n.Hash)] {
				failIdx = append(failIdx, tr.idx[n])
			}
		}
		rep.count(fmt.Sprintf("mode:%d", mode))
		rep.count(fmt.Sprintf("selected:%d", minInt(len(sel), 6)))
		sub, eS := collect(tr.tree.IterFunc(func(t *sb.Tree) (*sb.Token, error) {
			if selSet[t] {
				return &sb.Token{Kind: sb.KindRef, Value: append([]byte{}, t.Hash...)}, nil
			}
			return nil, nil
		}))
		// the same substitution by a mapping function that refills ONE scratch token for every node it replaces
		if eS == nil {
			scratch := &sb.Token{}
			sub2, eS2 := collect(tr.tree.IterFunc(func(t *sb.Tree) (*sb.Token, error) {
				if selSet[t] {
					scratch.Kind = sb.KindRef
					scratch.Value = append([]byte{}, t.Hash...)
					return scratch, nil
				}
				return nil, nil
			}))
			rep.Evaluations++
			if eS2 != nil || !tokensExactEq(sub2, sub) {
				rep.violate("C10", "iterfunc-keeps-callers-token", fmt.Sprintf("substituting with a reused scratch token gives [%s] (%v), with a fresh token per node [%s]", truncate(descTokens(sub2), 300), eS2, truncate(descTokens(sub), 300)), fmt.Sprintf("sel=%v %s", selIdx, desc))
			}
		}
		subSaved := cloneTokens(sub)
		subHash, eH := sinkHash(sub, f)
		subHash2, _ := sinkHash(sub, f)
		rep.Evaluations += 3
		if eS == nil && (!tokensExactEq(sub, subSaved) || !bytes.Equal(subHash, subHash2)) {
			rep.violate("C10", "hash-modifies-substituted-stream", fmt.Sprintf("hashing the substituted stream changed its reference tokens / its hash on a second run (%x then %x)", subHash, subHash2), fmt.Sprintf("sel=%v %s", selIdx, desc))
		}
		byHash := map[string]*sb.Tree{}
		for _, n := range sel {
			if _, ok := byHash[string(n.Hash)]; !ok {
				byHash[string(n.Hash)] = n
			}
		}
		var out []sb.Token
		if derefLeaked > 0 {
			continue // a Deref run did not return (reported below as deref-diverges): do not start more of them
		}
		eD := withWatchdog(6*time.Second, &derefLeaked, func() error {
			return guard(func() error {
				s := sb.Deref(tokensFrom(sub), func(h []byte) (sb.Stream, error) {
					if fail[string(h)] {
						if si%8 == 7 {
							return nil, fmt.Errorf("%w (%w)", errInjected, sb.NotFound) // a resolver backed by FindByHash
						}
						return nil, errInjected
					}
					if decl[string(h)] {
						return nil, nil
					}
					if n, ok := byHash[string(h)]; ok {
						return n.Iter(), nil
					}
					return nil, nil
				})
				for {
					var t sb.Token
					if err := s.Next(&t); err != nil {
						return err
					}
					if t.Invalid() {
						return nil
					}
					out = append(out, t)
					if len(out) > 100000 {
						return errDiverge
					}
				}
			})
		})
		rep.Evaluations++
		rdesc := fmt.Sprintf("sel=%v decline=%v fail=%v %s", selIdx, declIdx, failIdx, desc)
		if classOf(eD) == "EDiverge" {
			rep.violate("C10", "deref-diverges", "Deref did not finish within 6 s / 100000 tokens on a finite stream with a terminating resolver", rdesc)
			continue
		}
		// C10 oracles
		if eS != nil {
			rep.violate("C10", "substitute-error", fmt.Sprintf("IterFunc failed: %v", eS), rdesc)
		} else {
			if eH != nil || !bytes.Equal(subHash, rootHash) {
				rep.violate("C10", "substitution-changes-hash", fmt.Sprintf("hash after substitution %x (%v), before %x", subHash, eH, rootHash), rdesc)
			}
			switch {
			case len(fail) > 0:
				if classOf(eD) != "EFault" {
					rep.violate("C10", "resolver-error-lost", fmt.Sprintf("resolver failed but Deref returned %v", eD), rdesc)
				}
			case len(decl) == 0:
				if eD != nil || !tokensExactEq(out, ts) {
					rep.violate("C10", "deref-does-not-restore", fmt.Sprintf("Deref gave (%v) %s", eD, descTokens(out)), rdesc)
				}
			default:
				// declined references pass through unchanged: expected = substitution with only the declined ones
				want, _ := collect(tr.tree.IterFunc(func(t *sb.Tree) (*sb.Token, error) {
					if selSet[t] && decl[string(t.Hash)] {
						return &sb.Token{Kind: sb.KindRef, Value: append([]byte{}, t.Hash...)}, nil
					}
					return nil, nil
				}))
				if eD != nil || !tokensExactEq(out, want) {
					rep.violate("C10", "declined-reference-not-passed-through", fmt.Sprintf("Deref gave (%v) %s, expected %s", eD, descTokens(out), descTokens(want)), rdesc)
				}
			}
		}
		w.add(fmt.Sprintf("RefCase %s %d %s %s %s %s %s %s %s", coqTokens(ts), f.id, coqNats(selIdx), coqNats(declIdx), coqNats(failIdx),
			sobs(sub, eS), dobs(subHash, eH), sobs(out, eD), coqTokens(out)), rdesc, true)
	}
}

func cloneTokens(ts []sb.Token) []sb.Token {
	out := make([]sb.Token, len(ts))
	for i, t := range ts {
		out[i] = t
		if b, ok := t.Value.([]byte); ok {
			out[i].Value = append([]byte{}, b...)
		}
	}
	return out
}

func coqNats(xs []int) string {
	var b strings.Builder
	b.WriteString("[")
	for i, x := range xs {
		if i > 0 {
			b.WriteString("; ")
		}
		fmt.Fprintf(&b, "%d%%nat", x)
	}
	b.WriteString("]")
	return b.String()
}
