package main

import (
	"github.com/reusee/sb"
)

// A reference interpreter of the sink protocol, written from the property text (C14): who
// observes which token, when a sink is finished.  Independent of sb's combinator code.
// (AltSink is not interpreted here: its semantics is stated by the alt theorem instead.)

type refSink struct {
	spec     *sinkSpec
	n        int        // calls seen (rec / fail)
	kids     []*refSink // concat: remaining elements; filter: the inner sink
	stack    []sb.Kind  // collectvalue
	finished bool
}

func newRefSink(s *sinkSpec) *refSink {
	if s.nilAtBuild() {
		return nil
	}
	r := &refSink{spec: s}
	switch s.kind {
	case "concat":
		for _, k := range s.subs {
			if c := newRefSink(k); c != nil {
				r.kids = append(r.kids, c)
			}
		}
	case "filter":
		r.kids = []*refSink{newRefSink(s.subs[0])}
	}
	return r
}

func (s *sinkSpec) hasAlt() bool {
	if s.kind == "alt" {
		return true
	}
	for _, k := range s.subs {
		if k.hasAlt() {
			return true
		}
	}
	return false
}

// offer one token (nil = end-of-stream signal); returns done / error
func (r *refSink) feed(t *sb.Token, rec func(id int, t *sb.Token)) (done bool, failed bool) {
	switch r.spec.kind {
	case "discard":
		return t == nil, false
	case "rec":
		rec(r.spec.id, t)
		if t == nil {
			return true, false
		}
		r.n++
		return r.spec.k > 0 && r.n >= r.spec.k, false
	case "fail":
		rec(r.spec.id, t)
		r.n++
		if r.n >= r.spec.k {
			return false, true
		}
		return t == nil, false
	case "concat":
		// sequenced sinks receive consecutive values one after another
		if len(r.kids) == 0 {
			return true, false
		}
		d, f := r.kids[0].feed(t, rec)
		if f {
			return false, true
		}
		if d {
			r.kids = r.kids[1:]
		}
		return len(r.kids) == 0, false
	case "filter":
		inner := r.kids[0]
		if t == nil || r.spec.pred.eval(t) {
			if inner == nil {
				return true, false
			}
			d, f := inner.feed(t, rec)
			if f {
				return false, true
			}
			if d {
				r.kids[0] = nil
				return true, false
			}
			return false, false
		}
		return inner == nil, false
	case "collectvalue":
		if t == nil {
			return len(r.stack) == 0, len(r.stack) > 0
		}
		rec(r.spec.id, t)
		switch {
		case endOf[t.Kind] != 0:
			r.stack = append(r.stack, endOf[t.Kind])
			return false, false
		case t.Kind == sb.KindTypeName:
			r.stack = append(r.stack, sb.KindTypeName)
			return false, false
		case isEndKind(t.Kind):
			if len(r.stack) == 0 || r.stack[len(r.stack)-1] != t.Kind {
				return false, true
			}
			r.stack = r.stack[:len(r.stack)-1]
		}
		for len(r.stack) > 0 && r.stack[len(r.stack)-1] == sb.KindTypeName {
			r.stack = r.stack[:len(r.stack)-1]
		}
		return len(r.stack) == 0, false
	}
	panic("refSink kind " + r.spec.kind)
}

// reference Copy over a token list with an optionally failing source; returns per-id logs,
// whether an error is expected, tokens pulled
func refCopy(ts []sb.Token, srcFails bool, sinks []*sinkSpec) (logs map[int][]*sb.Token, failed bool, pulled int) {
	logs = map[int][]*sb.Token{}
	rec := func(id int, t *sb.Token) { logs[id] = append(logs[id], t) }
	var live []*refSink
	for _, s := range sinks {
		for _, id := range s.recIDs(nil) {
			if _, ok := logs[id]; !ok {
				logs[id] = nil
			}
		}
		if r := newRefSink(s); r != nil {
			live = append(live, r)
		}
	}
	if len(sinks) == 0 {
		return logs, false, 0
	}
	i := 0
	ended := false
	for {
		var tok *sb.Token
		if !ended {
			if i < len(ts) {
				tok = &ts[i]
				i++
				pulled++
			} else if srcFails {
				return logs, true, pulled
			} else {
				ended = true
			}
		}
		var next []*refSink
		roundFailed := false
		for _, r := range live {
			// when a sink fails Copy returns at once: which of the other sinks have already seen the token of
			// this round depends on their order; the reference completes the round and the comparison allows
			// a log to stop one entry short
			d, f := r.feed(tok, rec)
			if f {
				roundFailed = true
				continue
			}
			if !d {
				next = append(next, r)
			}
		}
		if roundFailed {
			return logs, true, pulled
		}
		live = next
		if len(live) == 0 {
			return logs, false, pulled
		}
	}
}

func (s *sinkSpec) recIDs(out []int) []int {
	switch s.kind {
	case "rec", "fail", "collectvalue":
		out = append(out, s.id)
	}
	for _, k := range s.subs {
		out = k.recIDs(out)
	}
	return out
}
