package main

import (
	"math"
	"math/rand"

	"github.com/reusee/sb"
)

var valuelessKinds = []sb.Kind{
	sb.KindMin, sb.KindArrayEnd, sb.KindObjectEnd, sb.KindMapEnd, sb.KindTupleEnd,
	sb.KindNil, sb.KindNaN, sb.KindArray, sb.KindObject, sb.KindMap, sb.KindTuple, sb.KindMax,
}

var strKinds = []sb.Kind{sb.KindString, sb.KindTypeName, sb.KindLiteral}
var bytesKinds = []sb.Kind{sb.KindBytes, sb.KindRef}

var f32Bits = []uint32{
	0x00000000, 0x80000000, 0x00000001, 0x80000001, 0x007fffff, 0x00800000,
	0x3f800000, 0x3f800001, 0x3f7fffff, 0xbf800000, 0x7f7fffff, 0xff7fffff,
	0x7f800000, 0xff800000, 0x40490fdb, 0x7fc00000, 0x7fc00001, 0xffc00000, 0x7f800001,
}

var f64Bits = []uint64{
	0x0000000000000000, 0x8000000000000000, 0x0000000000000001, 0x8000000000000001,
	0x000fffffffffffff, 0x0010000000000000, 0x3ff0000000000000, 0x3ff0000000000001,
	0x3fefffffffffffff, 0xbff0000000000000, 0x7fefffffffffffff, 0xffefffffffffffff,
	0x7ff0000000000000, 0xfff0000000000000, 0x400921fb54442d18,
	0x7ff8000000000000, 0x7ff8000000000001, 0xfff8000000000000, 0x7ff0000000000001,
}

var i64Bound = []int64{math.MinInt64, math.MinInt64 + 1, -1 << 32, -1<<31 - 1, -1 << 31, -65536, -32769, -32768, -257, -256, -129, -128, -2, -1, 0, 1, 2, 127, 128, 255, 256, 32767, 32768, 65535, 65536, 1<<31 - 1, 1 << 31, 1<<32 - 1, 1 << 32, math.MaxInt64 - 1, math.MaxInt64}
var u64Bound = []uint64{0, 1, 2, 127, 128, 255, 256, 32767, 32768, 65535, 65536, 1<<31 - 1, 1 << 31, 1<<32 - 1, 1 << 32, 1<<63 - 1, 1 << 63, math.MaxUint64 - 1, math.MaxUint64}

// payload of a given length: mostly repetitive (so that the RLE stays short) with
// distinctive first/last bytes including 0x00, 0xff and invalid UTF-8
func payload(r *rand.Rand, n int) []byte {
	bs := make([]byte, n)
	fill := byte('a' + r.Intn(26))
	for i := range bs {
		bs[i] = fill
	}
	special := []byte{0x00, 0xff, 0x80, 0xc3, 0x28, 0xfe, 0x7f, 'z'}
	for i := 0; i < 3 && i < n; i++ {
		bs[r.Intn(n)] = special[r.Intn(len(special))]
	}
	if n > 0 && n <= 24 && r.Intn(2) == 0 {
		for i := range bs {
			bs[i] = byte(r.Intn(256))
		}
	}
	return bs
}

var lenBoundQuick = []int{0, 1, 2, 7, 8, 9, 15, 16, 17, 23, 24, 25, 55, 56, 57, 119, 120, 121, 126, 127, 128, 129, 130, 255, 256, 257, 300}
var lenBoundBig = []int{16383, 16384, 16385}

// boundary alphabet of single tokens over all 31 encodable kinds
func boundaryTokens(r *rand.Rand, lens []int) []sb.Token {
	var ts []sb.Token
	for _, k := range valuelessKinds {
		ts = append(ts, sb.Token{Kind: k})
	}
	ts = append(ts, sb.Token{Kind: sb.KindBool, Value: false}, sb.Token{Kind: sb.KindBool, Value: true})
	for _, v := range i64Bound {
		ts = append(ts, sb.Token{Kind: sb.KindInt, Value: int(v)})
		ts = append(ts, sb.Token{Kind: sb.KindInt64, Value: v})
		if v >= math.MinInt8 && v <= math.MaxInt8 {
			ts = append(ts, sb.Token{Kind: sb.KindInt8, Value: int8(v)})
		}
		if v >= math.MinInt16 && v <= math.MaxInt16 {
			ts = append(ts, sb.Token{Kind: sb.KindInt16, Value: int16(v)})
		}
		if v >= math.MinInt32 && v <= math.MaxInt32 {
			ts = append(ts, sb.Token{Kind: sb.KindInt32, Value: int32(v)})
		}
	}
	for _, v := range u64Bound {
		ts = append(ts, sb.Token{Kind: sb.KindUint, Value: uint(v)})
		ts = append(ts, sb.Token{Kind: sb.KindUint64, Value: v})
		ts = append(ts, sb.Token{Kind: sb.KindPointer, Value: uintptr(v)})
		if v <= math.MaxUint8 {
			ts = append(ts, sb.Token{Kind: sb.KindUint8, Value: uint8(v)})
		}
		if v <= math.MaxUint16 {
			ts = append(ts, sb.Token{Kind: sb.KindUint16, Value: uint16(v)})
		}
		if v <= math.MaxUint32 {
			ts = append(ts, sb.Token{Kind: sb.KindUint32, Value: uint32(v)})
		}
	}
	for _, b := range f32Bits {
		ts = append(ts, sb.Token{Kind: sb.KindFloat32, Value: math.Float32frombits(b)})
	}
	for _, b := range f64Bits {
		ts = append(ts, sb.Token{Kind: sb.KindFloat64, Value: math.Float64frombits(b)})
	}
	for _, n := range lens {
		for _, k := range strKinds {
			ts = append(ts, sb.Token{Kind: k, Value: string(payload(r, n))})
		}
		for _, k := range bytesKinds {
			ts = append(ts, sb.Token{Kind: k, Value: payload(r, n)})
		}
	}
	return ts
}

func randLen(r *rand.Rand) int {
	switch r.Intn(10) {
	case 0:
		return 0
	case 1:
		return lenBoundQuick[r.Intn(len(lenBoundQuick))]
	case 2:
		return 100 + r.Intn(200)
	default:
		return r.Intn(20)
	}
}

// a random well-formed token of any of the 31 encodable kinds
func randToken(r *rand.Rand) sb.Token {
	switch r.Intn(14) {
	case 0:
		return sb.Token{Kind: valuelessKinds[r.Intn(len(valuelessKinds))]}
	case 1:
		return sb.Token{Kind: sb.KindBool, Value: r.Intn(2) == 0}
	case 2:
		return sb.Token{Kind: sb.KindInt, Value: int(randI64(r))}
	case 3:
		switch r.Intn(4) {
		case 0:
			return sb.Token{Kind: sb.KindInt8, Value: int8(randI64(r))}
		case 1:
			return sb.Token{Kind: sb.KindInt16, Value: int16(randI64(r))}
		case 2:
			return sb.Token{Kind: sb.KindInt32, Value: int32(randI64(r))}
		default:
			return sb.Token{Kind: sb.KindInt64, Value: randI64(r)}
		}
	case 4:
		return sb.Token{Kind: sb.KindUint, Value: uint(randU64(r))}
	case 5:
		switch r.Intn(5) {
		case 0:
			return sb.Token{Kind: sb.KindUint8, Value: uint8(randU64(r))}
		case 1:
			return sb.Token{Kind: sb.KindUint16, Value: uint16(randU64(r))}
		case 2:
			return sb.Token{Kind: sb.KindUint32, Value: uint32(randU64(r))}
		case 3:
			return sb.Token{Kind: sb.KindPointer, Value: uintptr(randU64(r))}
		default:
			return sb.Token{Kind: sb.KindUint64, Value: randU64(r)}
		}
	case 6:
		if r.Intn(2) == 0 {
			return sb.Token{Kind: sb.KindFloat32, Value: math.Float32frombits(f32Bits[r.Intn(len(f32Bits))])}
		}
		return sb.Token{Kind: sb.KindFloat32, Value: math.Float32frombits(r.Uint32())}
	case 7:
		if r.Intn(2) == 0 {
			return sb.Token{Kind: sb.KindFloat64, Value: math.Float64frombits(f64Bits[r.Intn(len(f64Bits))])}
		}
		return sb.Token{Kind: sb.KindFloat64, Value: math.Float64frombits(r.Uint64())}
	case 8, 9, 10:
		return sb.Token{Kind: strKinds[r.Intn(3)], Value: string(payload(r, randLen(r)))}
	default:
		return sb.Token{Kind: bytesKinds[r.Intn(2)], Value: payload(r, randLen(r))}
	}
}

func randI64(r *rand.Rand) int64 {
	if r.Intn(3) == 0 {
		return i64Bound[r.Intn(len(i64Bound))]
	}
	if r.Intn(2) == 0 {
		return int64(r.Intn(2000) - 1000)
	}
	return int64(r.Uint64())
}

func randU64(r *rand.Rand) uint64 {
	if r.Intn(3) == 0 {
		return u64Bound[r.Intn(len(u64Bound))]
	}
	if r.Intn(2) == 0 {
		return uint64(r.Intn(2000))
	}
	return r.Uint64()
}

func randTokens(r *rand.Rand, maxn int) []sb.Token {
	n := r.Intn(maxn + 1)
	ts := make([]sb.Token, n)
	for i := range ts {
		ts[i] = randToken(r)
	}
	return ts
}

func kindClass(k sb.Kind) string { return k.String() }
