package main

import (
	"bytes"
	"crypto/sha256"
	"fmt"
	"hash/fnv"
	"math/rand"
	"reflect"
	"runtime"
	"sort"
	"strings"
	"sync"
	"sync/atomic"

	"github.com/reusee/sb"
)

// one pipeline operation on independent data; returns a digest of everything it produced
type concOp func(r *rand.Rand) string

func digestOf(parts ...any) string {
	h := sha256.New()
	for _, p := range parts {
		fmt.Fprintf(h, "%v|", p)
	}
	return fmt.Sprintf("%x", h.Sum(nil)[:12])
}

func concOps() []concOp {
	return []concOp{
		// marshal -> encode -> decode -> unmarshal
		func(r *rand.Rand) string {
			t := randType(r, 2)
			v := randGoValue(r, t, 2)
			if hasTiedKeys(v) {
				// distinct map keys with equal key streams marshal in map iteration order (the domain edge of
				// C08): the result is not a function of the value even when run alone
				return digestOf("tied-keys")
			}
			ts, err := marshalTokens(v.Interface(), nil)
			if err != nil {
				return digestOf("merr", classOf(err))
			}
			enc := runEncode(ts, r.Intn(2), 0)
			dec := runDecode(enc.bytes, false, r.Intn(2), false, r)
			back, e2 := unmarshalInto(t, dec.toks, nil)
			_ = back
			return digestOf(enc.bytes, classOf(dec.err), classOf(e2), len(dec.toks))
		},
		// one Encode sink value used for several streams in a row (a long-lived sink: the sink of the first token
		// starts a new stream each time), many fixed-width payloads: the bytes are the concatenation of the encodings
		func(r *rand.Rand) string {
			w := &slowWriter{}
			sink := sb.Encode(w)
			var want []byte
			for k := 0; k < 4; k++ {
				var ts []sb.Token
				for i := 0; i < 30; i++ {
					ts = append(ts, sb.Token{Kind: sb.KindInt64, Value: int64(r.Uint64())}, sb.Token{Kind: sb.KindUint32, Value: uint32(r.Uint32())}, sb.Token{Kind: sb.KindFloat64, Value: float64(r.Intn(100000)) / 3})
				}
				want = append(want, runEncode(ts, 0, 0).bytes...)
				if err := guard(func() error { return sb.Copy(tokensFrom(ts), sink) }); err != nil {
					return digestOf("err", classOf(err))
				}
			}
			return digestOf(bytes.Equal(w.buf, want), len(w.buf))
		},
		// maps keyed by byte strings of a few fixed lengths decoded into untyped and interface-keyed maps
		func(r *rand.Rand) string {
			var ts []sb.Token
			ts = append(ts, sb.Token{Kind: sb.KindMap})
			n := 2 + r.Intn(4)
			keys := map[string]bool{}
			for len(keys) < n {
				k := payload(r, []int{4, 8, 16}[r.Intn(3)])
				if !keys[string(k)] {
					keys[string(k)] = true
				}
			}
			var sorted [][]byte
			for k := range keys {
				sorted = append(sorted, []byte(k))
			}
			sort.Slice(sorted, func(i, j int) bool {
				c, _ := sb.Compare(tokensFrom([]sb.Token{{Kind: sb.KindBytes, Value: sorted[i]}}), tokensFrom([]sb.Token{{Kind: sb.KindBytes, Value: sorted[j]}}))
				return c < 0
			})
			for i, k := range sorted {
				ts = append(ts, sb.Token{Kind: sb.KindBytes, Value: k}, sb.Token{Kind: sb.KindInt, Value: i})
			}
			ts = append(ts, sb.Token{Kind: sb.KindMapEnd})
			var x any
			e1 := guard(func() error { return sb.Copy(tokensFrom(ts), sb.Unmarshal(&x)) })
			re, e2 := marshalTokens(x, nil)
			var m map[any]int
			e3 := guard(func() error { return sb.Copy(tokensFrom(ts), sb.Unmarshal(&m)) })
			re2, e4 := marshalTokens(m, nil)
			return digestOf(classOf(e1), classOf(e2), classOf(e3), classOf(e4), tokensExactEq(re, ts), tokensExactEq(re2, ts))
		},
		// structural hashes: ints and floats use the 8-byte scratch pool
		func(r *rand.Rand) string {
			ts := randValue(r, 3, false).flatten(nil)
			s1, e1 := sinkHash(ts, hashFns[2])
			s2, e2 := fillHashRoot(ts, hashFns[0])
			s3, e3 := withHashRoot(ts, hashFns[1])
			return digestOf(s1, s2, s3, classOf(e1), classOf(e2), classOf(e3))
		},
		func(r *rand.Rand) string {
			var ts []sb.Token
			for i := 0; i < 40; i++ {
				ts = append(ts, sb.Token{Kind: sb.KindInt64, Value: int64(r.Uint64())}, sb.Token{Kind: sb.KindFloat64, Value: float64(r.Intn(1000)) / 7}, sb.Token{Kind: sb.KindUint16, Value: uint16(r.Intn(65536))})
			}
			all := append(append([]sb.Token{{Kind: sb.KindArray}}, ts...), sb.Token{Kind: sb.KindArrayEnd})
			s1, _ := sinkHash(all, hashFns[2])
			s2, _ := fillHashRoot(all, hashFns[2])
			return digestOf(s1, s2, bytes.Equal(s1, s2))
		},
		// long strings through both decoders: the 32K buffer pool
		func(r *rand.Rand) string {
			n := 1 + r.Intn(70000)
			ts := []sb.Token{{Kind: sb.KindString, Value: string(payload(r, n))}, {Kind: sb.KindBytes, Value: payload(r, n/3)}, {Kind: sb.KindInt, Value: n}}
			enc := runEncode(ts, 0, 0).bytes
			d1 := runDecode(enc, false, 0, false, r)
			d2 := runDecode(enc, true, 1, false, r)
			c, e := cmpSegImpl(enc, enc)
			h := sha256.New()
			for _, t := range d1.toks {
				fmt.Fprint(h, descToken(t))
			}
			for _, t := range d2.toks {
				fmt.Fprint(h, descToken(t))
			}
			return digestOf(h.Sum(nil), c, classOf(e), classOf(d1.err), classOf(d2.err))
		},
		// comparison routes
		func(r *rand.Rand) string {
			a, b := randTokens(r, 6), randTokens(r, 6)
			ea, eb := runEncode(a, 0, 0).bytes, runEncode(b, 0, 0).bytes
			c1, e1 := cmpTokensImpl(a, b)
			c2, e2 := cmpBytesImpl(ea, eb)
			c3, e3 := cmpSegImpl(ea, eb)
			return digestOf(c1, c2, c3, classOf(e1), classOf(e2), classOf(e3))
		},
		// type names and registration (registries and the name cache)
		func(r *rand.Rand) string {
			var names []string
			for i := 0; i < 8; i++ {
				t := catalogueTypes[r.Intn(len(catalogueTypes))]
				if r.Intn(2) == 0 {
					t = reflect.PtrTo(t)
				}
				names = append(names, sb.TypeName(t))
			}
			for _, t := range registeredTypes {
				sb.Register(t) // idempotent
			}
			v := RegNested{P: RegPoint{X: r.Intn(9), Y: 2}, Name: "n", Tags: []string{"a"}}
			var boxed any = v
			ts, _ := marshalTokens(&boxed, nil)
			var x any
			e := guard(func() error { return copyBudget(tokensFrom(ts), sb.Unmarshal(&x)) })
			return digestOf(strings.Join(names, ","), descTokens(ts), fmt.Sprintf("%T", x), classOf(e))
		},
		// registration of FRESH types while others marshal (lost updates of the registries)
		func(r *rand.Rand) string {
			depth := 2 + int(freshTypeCounter.Add(1))
			t := reflect.TypeOf(RegPoint{})
			for i := 0; i < depth; i++ {
				t = reflect.PtrTo(t)
			}
			sb.Register(t)
			// a value of the freshly registered type must be marshalled with its type name ...
			v := reflect.New(t.Elem()) // *(...): points to a nil pointer of the next level
			ts, err := marshalTokens(v.Interface(), nil)
			named := len(ts) > 0 && ts[0].Kind == sb.KindTypeName && ts[0].Value == sb.TypeName(t)
			// ... and the name must resolve back to the type
			var x any
			e2 := guard(func() error {
				return copyBudget(tokensFrom([]sb.Token{{Kind: sb.KindTypeName, Value: sb.TypeName(t)}, {Kind: sb.KindNil}}), sb.Unmarshal(&x))
			})
			return digestOf(named, classOf(err), classOf(e2), x != nil && reflect.TypeOf(x) == t)
		},
		// strict mode with deprecated-field declarations (the deprecation memo)
		func(r *rand.Rand) string {
			var res []string
			for _, name := range []string{"Old", "Gone", "Other", "Keep"} {
				ts := []sb.Token{tokK(sb.KindObject), tokS(name), tokI(r.Intn(5)), tokK(sb.KindObjectEnd)}
				uctx := mkCtx(false, true)
				_, e := unmarshalInto(reflect.TypeOf(WithDeprecated{}), ts, &uctx)
				res = append(res, classOf(e))
			}
			return digestOf(strings.Join(res, ","))
		},
		// trees
		func(r *rand.Rand) string {
			ts := randValue(r, 4, false).flatten(nil)
			tr, e := buildTree(ts, &hashFns[0])
			if e != nil {
				return digestOf("terr", classOf(e))
			}
			out, _ := collect(tr.tree.Iter())
			return digestOf(descTokens(out), tr.tree.Hash)
		},
	}
}

var freshTypeCounter atomic.Int64

func famConc(dir string, seed int64, tier string) {
	thorough := tier == "thorough"
	rep := newReport("conc", seed, tier)
	rep.Rule = "stress schedules: G goroutines (2..64), each running a seeded sequence of pipeline operations (marshal/unmarshal/encode/decode/compare/hash/tree/type-name/registration/strict-mode) on independent data, released by a start barrier, with varied GOMAXPROCS and yields; pools exhausted by holding all elements through the verif hooks in half of the trials; each goroutine's results compared with the same sequence run alone; built with the race detector; non-trivial = trial with at least 2 goroutines"
	ops := concOps()
	trials := 30
	if thorough {
		trials = 120
	}
	_ = fnv.New128
	for trial := 0; trial < trials; trial++ {
		r := newRand(seed, fmt.Sprintf("conc-%d", trial))
		G := []int{2, 3, 4, 8, 16, 33, 64}[trial%7]
		nops := 6 + r.Intn(10)
		procs := []int{1, 2, 4, 16}[trial%4]
		runtime.GOMAXPROCS(procs)
		hold := trial%2 == 1
		// the programs
		type prog struct {
			seeds []int64
			which []int
		}
		progs := make([]prog, G)
		for g := range progs {
			for i := 0; i < nops; i++ {
				progs[g].seeds = append(progs[g].seeds, r.Int63())
				progs[g].which = append(progs[g].which, r.Intn(len(ops)))
			}
		}
		runProg := func(p prog, yield bool) []string {
			var out []string
			for i := range p.seeds {
				rr := rand.New(rand.NewSource(p.seeds[i]))
				out = append(out, ops[p.which[i]](rr))
				if yield {
					runtime.Gosched()
				}
			}
			return out
		}
		// alone
		alone := make([][]string, G)
		for g := range progs {
			alone[g] = runProg(progs[g], false)
		}
		sb.VerifResetCaches()
		var release1, release2 func()
		if hold {
			release1 = sb.VerifHoldBytesPool8(1024)
			release2 = sb.VerifHoldBytesPool32K(32)
		}
		// together
		together := make([][]string, G)
		var wg sync.WaitGroup
		start := make(chan struct{})
		for g := range progs {
			wg.Add(1)
			go func(g int) {
				defer wg.Done()
				<-start
				together[g] = runProg(progs[g], g%2 == 0)
			}(g)
		}
		close(start)
		wg.Wait()
		if hold {
			release1()
			release2()
		}
		rep.Evaluations += G * nops * 2
		rep.Cases++
		rep.Distinct++
		rep.count(fmt.Sprintf("G:%d", G))
		rep.count(fmt.Sprintf("GOMAXPROCS:%d", procs))
		rep.count(fmt.Sprintf("pools-exhausted:%v", hold))
		desc := fmt.Sprintf("trial=%d seed=%d G=%d ops=%d GOMAXPROCS=%d pools-held=%v", trial, seed, G, nops, procs, hold)
		if len(rep.Samples) < 4 {
			rep.Samples = append(rep.Samples, "conc: "+desc)
		}
		for g := range progs {
			for i := range alone[g] {
				if alone[g][i] != together[g][i] {
					rep.violate("C19", "concurrent-result-differs", fmt.Sprintf("goroutine %d, operation %d (kind %d): result alone %s, concurrently %s", g, i, progs[g].which[i], alone[g][i], together[g][i]), desc)
				}
			}
		}
	}
	runtime.GOMAXPROCS(runtime.NumCPU())
	apiLateRegistration(rep, "C19")
	apiTreeEditsStayPrivate(rep, "C19")
	apiDeprecationRace(rep, 3000)
	apiRegistrationRace(rep, 5000) // (the race detector slows the window down: the long replay runs in the plain build, family concplain)
	rep.write(dir)
}

// the registration race replayed many times in the PLAIN build (the race detector stretches the window between
// the two registry writes so much that the losing goroutine hardly ever lands inside it)
func famConcPlain(dir string, seed int64, tier string) {
	rep := newReport("concplain", seed, tier)
	rep.Rule = "registration of one new type by 3 goroutines at once, replayed through the VerifUnregister hook; each goroutine then marshals a value of the type and reads it back into `any`; non-trivial = every round"
	n := 120000
	if tier == "thorough" {
		n = 1500000
	}
	apiRegistrationRace(rep, n)
	apiDeprecationRace(rep, n/4)
	rep.Cases = n
	rep.Distinct = n
	rep.Samples = append(rep.Samples, fmt.Sprintf("concplain: %d rounds", n))
	rep.write(dir)
}

// a writer that yields the processor between receiving a slice and copying it (widens the window in which a
// shared scratch buffer could be rewritten by somebody else)
type slowWriter struct{ buf []byte }

func (w *slowWriter) Write(p []byte) (int, error) {
	runtime.Gosched()
	w.buf = append(w.buf, p...)
	return len(p), nil
}
