package main

import (
	"bytes"
	"errors"
	"fmt"
	"math/rand"
	"reflect"
	"strconv"
	"strings"
	"time"

	"github.com/reusee/sb"
)

// ---------------------------------------------------------------------------
// helpers
// ---------------------------------------------------------------------------

func coqOpts(skipEmpty, strict, ignoreFuncs bool) string {
	return fmt.Sprintf("(Opts %s %s %s)", coqBool(skipEmpty), coqBool(strict), coqBool(ignoreFuncs))
}

func mkCtx(skipEmpty, strict bool) sb.Ctx {
	ctx := sb.Ctx{}
	if skipEmpty {
		ctx = ctx.SkipEmpty()
	}
	if strict {
		ctx = ctx.Strict()
	}
	return ctx
}

func coqRegistry() string {
	var xs []string
	for _, t := range registeredTypes {
		xs = append(xs, "("+coqStrBytes(sb.TypeName(t))+", "+coqTy(t)+")")
	}
	return "[" + strings.Join(xs, "; ") + "]"
}

// strconv.ParseFloat results for the Literal tokens of a case (the model takes them as a table)
func floatTable(ts []sb.Token) string {
	var xs []string
	seen := map[string]bool{}
	for _, t := range ts {
		if t.Kind != sb.KindLiteral {
			continue
		}
		s := t.Value.(string)
		if seen[s] {
			continue
		}
		seen[s] = true
		for _, bits := range []int{32, 64} {
			f, err := strconv.ParseFloat(s, bits)
			r := "None"
			if err == nil {
				if bits == 32 {
					r = fmt.Sprintf("(Some %d)", mathFloat32bits(float32(f)))
				} else {
					r = fmt.Sprintf("(Some %d)", mathFloat64bits(f))
				}
			}
			xs = append(xs, fmt.Sprintf("(%s, %d, %s)", coqRLE([]byte(s)), bits, r))
		}
	}
	return "[" + strings.Join(xs, "; ") + "]"
}

// unmarshal runs that did not return (each keeps a goroutine spinning): after a few, no more are started
var unmLeaked int

func unmarshalInto(t reflect.Type, ts []sb.Token, ctx *sb.Ctx) (reflect.Value, error) {
	target := reflect.New(t)
	if unmLeaked > 3 {
		return target.Elem(), errDiverge
	}
	err := withWatchdog(5*time.Second, &unmLeaked, func() error {
		return guard(func() error {
			var sink sb.Sink
			if ctx == nil {
				sink = sb.Unmarshal(target.Interface())
			} else {
				c := *ctx
				c.Unmarshal = sb.UnmarshalValue
				sink = sb.UnmarshalValue(c, target, nil)
			}
			return copyBudget(tokensFrom(ts), sink)
		})
	})
	if classOf(err) == "EDiverge" {
		return reflect.New(t).Elem(), err // the run may still be writing into its target
	}
	return target.Elem(), err
}

// the same through TapUnmarshal with a tap that only observes: tapping must not change the outcome
var tapLeaked int

func tapUnmarshalInto(t reflect.Type, ts []sb.Token) (reflect.Value, error) {
	target := reflect.New(t)
	err := withWatchdog(5*time.Second, &tapLeaked, func() error {
		return guard(func() error {
			return copyBudget(tokensFrom(ts), sb.TapUnmarshal(sb.Ctx{}, target.Interface(), func(sb.Ctx, sb.Token, reflect.Value) {}))
		})
	})
	if classOf(err) == "EDiverge" {
		return reflect.New(t).Elem(), err
	}
	return target.Elem(), err
}

// C05 through the tapped entry point: same acceptance, same error class, same value, and it returns
func tapOracle(repU *Report, t reflect.Type, ts []sb.Token, back reflect.Value, eU error, desc string) {
	if len(ts) == 0 {
		return // an empty stream leaves a tapped target untouched (pinned by the repository's own test)
	}
	if tapLeaked >= 2 {
		return // two tapped runs did not return (reported): each keeps a goroutine spinning, start no more
	}
	bt, eT := tapUnmarshalInto(t, ts)
	repU.Evaluations++
	switch {
	case classOf(eT) == "EDiverge":
		repU.violate("C05", "unmarshal-diverges", "Copy into TapUnmarshal did not return within 5 s (plain Unmarshal: "+classOf(eU)+")", "tapped: "+desc)
	case classOf(eT) == "EPanic":
		repU.violate("C05", "unmarshal-panic", fmt.Sprintf("TapUnmarshal panicked: %v", eT), "tapped: "+desc)
	case classOf(eT) != classOf(eU):
		repU.violate("C05", "tap-changes-outcome", fmt.Sprintf("plain Unmarshal: %s, through TapUnmarshal with an observing tap: %s", classOf(eU), classOf(eT)), "tapped: "+desc)
	case eU == nil && !selfEqualOrEquiv(back, bt):
		repU.violate("C05", "tap-changes-outcome", "the tapped run produced a different value", "tapped: "+desc)
	}
}

func selfEqualOrEquiv(a, b reflect.Value) (ok bool) {
	defer func() {
		if recover() != nil {
			ok = true // values the equivalence cannot traverse are not this oracle's business
		}
	}()
	return equivValues(a, b)
}

// sb.Copy with a step budget (a diverging implementation becomes an observable)
func copyBudget(s sb.Stream, sink sb.Sink) error {
	n := 0
	var counting sb.Proc
	counting = func(t *sb.Token) (sb.Proc, error) {
		n++
		if n > 3_000_000 {
			return nil, errDiverge
		}
		if err := s.Next(t); err != nil {
			return nil, err
		}
		if t.Invalid() {
			return nil, nil
		}
		return counting, nil
	}
	return sb.Copy(&counting, sink)
}

func uobs(v reflect.Value, err error) string {
	if err != nil {
		return "(UErr " + classOf(err) + ")"
	}
	return "(UOk " + coqGval(v) + ")"
}

func mobs(ts []sb.Token, err error) string {
	if err != nil {
		return "(MErr " + classOf(err) + ")"
	}
	return "(MOk " + coqTokens(ts) + ")"
}

// a non-nil pointer whose pointee, through any further pointer levels, is nil: the wire format
// cannot express it (known finding C01)
func hasPtrToNilPtr(v reflect.Value) bool {
	switch v.Kind() {
	case reflect.Ptr:
		if v.IsNil() {
			return false
		}
		e := v.Elem()
		for e.Kind() == reflect.Ptr || e.Kind() == reflect.Interface {
			if e.IsNil() {
				return e.Kind() == reflect.Ptr || true
			}
			e = e.Elem()
		}
		return hasPtrToNilPtr(v.Elem())
	case reflect.Interface:
		if v.IsNil() {
			return false
		}
		return hasPtrToNilPtr(v.Elem())
	case reflect.Slice, reflect.Array:
		for i := 0; i < v.Len(); i++ {
			if hasPtrToNilPtr(v.Index(i)) {
				return true
			}
		}
	case reflect.Map:
		it := v.MapRange()
		for it.Next() {
			if hasPtrToNilPtr(it.Key()) || hasPtrToNilPtr(it.Value()) {
				return true
			}
		}
	case reflect.Struct:
		if v.Type() == timeType {
			return false
		}
		for i := 0; i < v.NumField(); i++ {
			if v.Type().Field(i).PkgPath == "" && hasPtrToNilPtr(v.Field(i)) {
				return true
			}
		}
	case reflect.Func:
		if !v.IsNil() {
			for _, o := range accessible(v).Call(nil) {
				if hasPtrToNilPtr(o) {
					return true
				}
			}
		}
	}
	return false
}

// map keys (anywhere in the value) that marshal to NaN: BadMapKey by design
func hasBadMapKey(v reflect.Value) bool {
	switch v.Kind() {
	case reflect.Ptr, reflect.Interface:
		if v.IsNil() {
			return false
		}
		return hasBadMapKey(v.Elem())
	case reflect.Slice, reflect.Array:
		for i := 0; i < v.Len(); i++ {
			if hasBadMapKey(v.Index(i)) {
				return true
			}
		}
	case reflect.Map:
		it := v.MapRange()
		for it.Next() {
			if hasNaNOrNilKey(it.Key()) || hasBadMapKey(it.Key()) || hasBadMapKey(it.Value()) {
				return true
			}
		}
	case reflect.Struct:
		if v.Type() == timeType {
			return false
		}
		for i := 0; i < v.NumField(); i++ {
			if v.Type().Field(i).PkgPath == "" && hasBadMapKey(v.Field(i)) {
				return true
			}
		}
	case reflect.Func:
		if !v.IsNil() {
			for _, o := range accessible(v).Call(nil) {
				if hasBadMapKey(o) {
					return true
				}
			}
		}
	}
	return false
}

// distinct map keys with equal key streams (pointer keys, interface keys of different named
// types): excluded from the canonical-order domain
func hasTiedKeys(v reflect.Value) bool {
	switch v.Kind() {
	case reflect.Ptr, reflect.Interface:
		if v.IsNil() {
			return false
		}
		return hasTiedKeys(v.Elem())
	case reflect.Slice, reflect.Array:
		for i := 0; i < v.Len(); i++ {
			if hasTiedKeys(v.Index(i)) {
				return true
			}
		}
	case reflect.Map:
		var streams [][]sb.Token
		it := v.MapRange()
		for it.Next() {
			ts, err := marshalTokens(it.Key().Interface(), nil)
			if err != nil {
				return true
			}
			for _, o := range streams {
				if c, e := sb.Compare(tokensFrom(o), tokensFrom(ts)); e == nil && c == 0 {
					return true
				}
			}
			streams = append(streams, ts)
			if hasTiedKeys(it.Value()) {
				return true
			}
		}
	case reflect.Func:
		// a tuple func marshals the values it returns
		if v.IsNil() {
			return false
		}
		for _, o := range accessible(v).Call(nil) {
			if hasTiedKeys(o) {
				return true
			}
		}
	case reflect.Struct:
		if v.Type() == timeType {
			return false
		}
		for i := 0; i < v.NumField(); i++ {
			if v.Type().Field(i).PkgPath == "" && hasTiedKeys(v.Field(i)) {
				return true
			}
		}
	}
	return false
}

// a copy of v in which every map has been rebuilt through a different insertion/deletion history
func rebuildMaps(r *rand.Rand, v reflect.Value) reflect.Value {
	t := v.Type()
	if t.Kind() == reflect.Struct {
		v = addressable(v)
	}
	out := reflect.New(t).Elem()
	switch t.Kind() {
	case reflect.Map:
		if v.IsNil() {
			return out
		}
		m := reflect.MakeMap(t)
		keys := v.MapKeys()
		r.Shuffle(len(keys), func(i, j int) { keys[i], keys[j] = keys[j], keys[i] })
		// insert some entries, delete them again, insert everything in shuffled order
		for _, k := range keys {
			if r.Intn(2) == 0 {
				m.SetMapIndex(k, reflect.Zero(t.Elem()))
			}
		}
		for _, k := range keys {
			if r.Intn(2) == 0 {
				m.SetMapIndex(k, reflect.Value{})
			}
		}
		for _, k := range keys {
			m.SetMapIndex(k, rebuildMaps(r, v.MapIndex(k)))
		}
		out.Set(m)
	case reflect.Slice:
		if v.IsNil() {
			return out
		}
		s := reflect.MakeSlice(t, v.Len(), v.Len())
		for i := 0; i < v.Len(); i++ {
			s.Index(i).Set(rebuildMaps(r, v.Index(i)))
		}
		out.Set(s)
	case reflect.Array:
		for i := 0; i < v.Len(); i++ {
			out.Index(i).Set(rebuildMaps(r, v.Index(i)))
		}
	case reflect.Struct:
		if t == timeType {
			out.Set(accessible(v))
			return out
		}
		for i := 0; i < t.NumField(); i++ {
			f := out.Field(i)
			src := v.Field(i)
			if !f.CanSet() {
				f = reflect.NewAt(f.Type(), f.Addr().UnsafePointer()).Elem()
				src = accessible(src)
				f.Set(src)
				continue
			}
			f.Set(rebuildMaps(r, src))
		}
	case reflect.Ptr:
		if v.IsNil() {
			return out
		}
		p := reflect.New(t.Elem())
		p.Elem().Set(rebuildMaps(r, v.Elem()))
		out.Set(p)
	case reflect.Interface:
		if v.IsNil() {
			return out
		}
		out.Set(rebuildMaps(r, v.Elem()))
	default:
		out.Set(accessible(v))
	}
	return out
}

// every Map compound of a marshalled stream has strictly ascending key streams
func mapKeysAscending(ts []sb.Token) (bool, string) {
	v, rest := parseGo(ts)
	if v == nil || len(rest) != 0 {
		return true, "" // not a single value: not this oracle's business
	}
	var walk func(v *gval) (bool, string)
	walk = func(v *gval) (bool, string) {
		if v.named != nil {
			return walk(v.named)
		}
		if v.leaf != nil {
			return true, ""
		}
		if v.open == sb.KindMap {
			var prev []sb.Token
			for i := 0; i+1 < len(v.items); i += 2 {
				k := v.items[i].flatten(nil)
				if i > 0 {
					c := refLex(prev, k) // the documented order, independently of sb.Compare
					if c >= 0 {
						return false, fmt.Sprintf("key [%s] does not sort strictly after [%s]", descTokens(k), descTokens(prev))
					}
				}
				prev = k
			}
		}
		for _, it := range v.items {
			if ok, m := walk(it); !ok {
				return false, m
			}
		}
		return true, ""
	}
	return walk(v)
}

// parse one value off a token list (Go-side mirror of flatten)
func parseGo(ts []sb.Token) (*gval, []sb.Token) {
	if len(ts) == 0 {
		return nil, nil
	}
	t := ts[0]
	switch {
	case endOf[t.Kind] != 0:
		v := &gval{open: t.Kind}
		rest := ts[1:]
		for {
			if len(rest) == 0 {
				return nil, nil
			}
			if isEndKind(rest[0].Kind) {
				v.close = rest[0].Kind
				return v, rest[1:]
			}
			var it *gval
			it, rest = parseGo(rest)
			if it == nil {
				return nil, nil
			}
			v.items = append(v.items, it)
		}
	case t.Kind == sb.KindTypeName:
		inner, rest := parseGo(ts[1:])
		if inner == nil {
			return nil, nil
		}
		return &gval{name: t.Value.(string), named: inner}, rest
	case isEndKind(t.Kind):
		return nil, nil
	}
	return &gval{leaf: &ts[0]}, ts[1:]
}

func isUnmarshalError(err error) bool { return errors.Is(err, sb.UnmarshalError) }

// ---------------------------------------------------------------------------
// the typed family: marshal / round trip / unmarshal
// ---------------------------------------------------------------------------

func famTyped(dir string, seed int64, tier string) {
	thorough := tier == "thorough"
	repM := newReport("marshal", seed, tier)
	repM.Rule = "(type, value, options) with types from a recursive grammar (depth<=4: scalars of every width, strings, []byte, [n]byte, arrays, slices, maps, structs, pointers, any, tuple funcs, time.Time, named and registered catalogue types, unexported fields) and values biased to boundaries; every generated map is also rebuilt through a different insertion/deletion history; non-trivial = the value is not a bare scalar; distinct by case text"
	repU := newReport("unmarshal", seed, tier)
	repU.Rule = "(target type, tokens): streams marshalled from generated values into their own type (round trip, also through the byte codec with every reader/writer flavour on the Go side), into mutated target types, garbled / truncated token sequences, `any` targets; non-trivial = at least 2 tokens"
	wM := newCaseWriter(dir, "marshal", "Corr_marshal", "marshal_case", "check_marshal", 120, repM)
	wU := newCaseWriter(dir, "unmarshal", "Corr_marshal", "unmarshal_case", "check_unmarshal", 120, repU)
	r := newRand(seed, "typed")
	reg := coqRegistry()
	repP := newReport("utaps", seed, tier)
	repP.Rule = "(target type, tokens, strict?) through TapUnmarshal with a recording tap: round-trip streams, streams into mutated targets, garbled / truncated streams, hand-made edge streams; observed = result value or (error class, first path attached to the error), and the tap log (ctx.Path, token kind, target kind); non-trivial = at least 2 taps; distinct by case text"
	utapsW = newCaseWriter(dir, "utaps", "Corr_utaps", "utaps_case", "check_utaps", 100, repP)
	tuplesW = newCaseWriter(dir, "tuples", "Corr_tuples", "tuple_case", "check_tuple", 150, repU)

	n := 500
	if thorough {
		n = 12000
	}
	for i := 0; i < n; i++ {
		depth := 1 + r.Intn(4)
		t := randType(r, depth)
		v := randGoValue(r, t, depth)
		tyS := coqTy(t)
		if len(tyS) > 6000 {
			continue
		}
		valS := coqGval(v)
		if len(valS) > 12000 {
			continue
		}
		desc := fmt.Sprintf("type=%v value=%s", t, truncate(fmt.Sprintf("%+v", safeFormat(v)), 300))
		repM.count("kind:" + t.Kind().String())
		skipEmpty := i%5 == 4
		var ctxp *sb.Ctx
		if skipEmpty {
			c := mkCtx(true, false)
			ctxp = &c
		}
		ts, err := marshalTokens(v.Interface(), ctxp)
		repM.Evaluations++
		badKey := hasBadMapKey(v)
		tied := hasTiedKeys(v)
		if classOf(err) == "EPanic" {
			repM.violate("C01", "marshal-panic", fmt.Sprintf("%v", err), desc)
		}
		if !badKey && err != nil && classOf(err) != "EPanic" {
			repM.violate("C01", "marshal-error", fmt.Sprintf("Marshal failed on a supported value: %v", err), desc)
		}
		if badKey && err == nil {
			repM.violate("C08", "bad-key-accepted", "a map key that marshals to NaN was accepted", desc)
		}
		if err != nil && classOf(err) != "EPanic" && classOf(err) != "EDiverge" && !errorsIs(err, sb.MarshalError) {
			repM.violate("C15", "not-a-marshal-error", fmt.Sprintf("Marshal failed with an error that is not a MarshalError: %v", err), desc)
			repM.violate("C08", "not-a-marshal-error", fmt.Sprintf("Marshal failed with an error that is not a MarshalError: %v", err), desc)
		}
		if badKey && err != nil && classOf(err) != "EBadMapKey" {
			repM.violate("C08", "bad-key-error-class", fmt.Sprintf("a NaN map key is reported as %s, not as BadMapKey", classOf(err)), desc)
		}
		if !tied {
			wM.add(fmt.Sprintf("MarshalCase %s %s %s %s", coqOpts(skipEmpty, false, false), tyS, valS, mobs(ts, err)), desc, t.Kind() >= reflect.Array)
		}
		if err != nil || badKey {
			continue
		}
		// ---- C08: canonical and deterministic ----
		if !tied {
			ts2, _ := marshalTokens(v.Interface(), ctxp)
			if !tokensExactEq(ts, ts2) {
				repM.violate("C08", "not-deterministic", "two Marshal calls on the same value gave different streams", desc)
			}
			rb := rebuildMaps(r, v)
			ts3, e3 := marshalTokens(rb.Interface(), ctxp)
			repM.Evaluations += 2
			if e3 != nil || !tokensExactEq(ts, ts3) {
				repM.violate("C08", "map-history-dependent", fmt.Sprintf("the same content built through a different insertion/deletion history marshals differently (%v): %s vs %s", e3, truncate(descTokens(ts), 300), truncate(descTokens(ts3), 300)), desc)
			}
			// (default options only: entries are ordered by the keys' streams under the DEFAULT options, so with
			// empty-field skipping the emitted streams of struct-typed keys need not be ascending; C08 quantifies
			// over inputs and histories, not configurations - the model mirrors this: Model/Marshal.v sortkey)
			if ok, msg := mapKeysAscending(ts); !ok && !skipEmpty {
				repM.violate("C08", "map-keys-not-ascending", msg, desc)
			}
			// levels of pointer / interface indirection
			p := reflect.New(t)
			p.Elem().Set(v)
			ts4, e4 := marshalTokens(p.Interface(), ctxp)
			var boxed any = v.Interface()
			ts5, e5 := marshalTokens(&boxed, ctxp)
			repM.Evaluations += 2
			if e4 != nil || e5 != nil || !tokensExactEq(ts, ts4) || !tokensExactEq(ts, ts5) {
				repM.violate("C08", "indirection-changes-stream", "marshalling through a pointer / an interface gives a different stream", desc)
			}
		}
		if i%4 == 1 {
			apiTapWithOptions(repM, repU, r, t, v, desc)
		}
		// ---- C01: round trip through tokens and through bytes ----
		if skipEmpty {
			continue // the skip-empty round trip belongs to C16
		}
		back, eU := unmarshalInto(t, ts, nil)
		repU.Evaluations++
		known := hasPtrToNilPtr(v)
		compKey := hasCompositeIfaceKey(v)
		if classOf(eU) == "EPanic" {
			repU.violate("C01", "unmarshal-panic", fmt.Sprintf("%v", eU), desc)
		} else if eU != nil {
			key := "roundtrip-error"
			if compKey && classOf(eU) == "EBadMapKey" {
				key = "iface-key-composite"
			}
			repU.violate("C01", key, fmt.Sprintf("unmarshalling the marshalled stream into a zero %v failed: %v", t, eU), desc)
		} else if !equivValues(v, back) {
			key := "roundtrip-not-equivalent"
			if known {
				key = "ptr-to-nil-ptr"
			} else if tied {
				// two distinct map keys with EQUAL key streams (a nil interface and a typed nil pointer held in an
				// interface-typed key both marshal to Nil) are one key after decoding: the recorded finding
				key = "tied-map-keys"
			}
			tsBack, _ := marshalTokens(back.Interface(), nil)
			repU.violate("C01", key, fmt.Sprintf("round trip of %v gives %s; stream of the value [%s], stream of the result [%s]", t, truncate(fmt.Sprintf("%+v", safeFormat(back)), 300), truncate(descTokens(ts), 700), truncate(descTokens(tsBack), 700)), desc)
		}
		if len(ts) < 400 {
			wU.add(fmt.Sprintf("UnmarshalCase %s %s %s %s %s %s %s", coqOpts(false, false, false), reg, tyS, "(zero "+tyS+")", coqTokens(ts), floatTable(ts), uobs(back, eU)), "roundtrip: "+desc, len(ts) >= 2)
		}
		if i%3 == 0 && !tied {
			utapsCase(repP, t, ts, false, "roundtrip: "+desc)
		}
		// through the byte codec: writer flavour x reader flavour
		wf, rf := i%2, i%len(readerFlavours)
		enc := runEncode(ts, wf, 0)
		if enc.err != nil {
			repU.violate("C01", "encode-error", fmt.Sprintf("%v", enc.err), desc)
			continue
		}
		dec := runDecode(enc.bytes, false, rf, false, r)
		if dec.err != nil || !tokensExactEq(dec.toks, ts) {
			repU.violate("C01", "codec-roundtrip", fmt.Sprintf("decode(encode(marshal v)) differs (%v)", dec.err), desc)
			continue
		}
		back2, eU2 := unmarshalInto(t, dec.toks, nil)
		repU.Evaluations++
		if compKey && classOf(eU2) == "EBadMapKey" {
			continue // the recorded finding, already reported through the token route
		}
		if eU2 != nil || (!equivValues(v, back2) && !known && !tied) {
			repU.violate("C01", "roundtrip-bytes", fmt.Sprintf("round trip through bytes (%s, %s) fails: %v", writerFlavours[wf], readerFlavours[rf], eU2), desc)
		}
	}
	typedKeyOrder(repM, wM, r)
	typedRegisteredMarshaler(repM, repU)
	typedRegistrationOrder(repM, repU)
	typedEmbedded(repU)
	typedEmbeddedPtr(repU)
	typedDualHook(repU)
	typedNilHookInInterface(repM)
	typedDeprecationMemo(repU)
	typedAPI(repM, repU, wM, wU, r, thorough)
	typedMore(dir, seed, tier, repU, wU)
	typedTargeted(repU, wU, r)
	typedEvolution(dir, seed, tier, repM, repU, wM, wU)
	typedPaths(dir, seed, tier, repM, repU)
	wM.flush()
	wU.flush()
	utapsW.flush()
	tuplesW.flush()
	repM.write(dir)
	repU.write(dir)
	repP.write(dir)
}

func truncate(s string, n int) string {
	if len(s) > n {
		return s[:n] + "..."
	}
	return s
}

// fmt on values containing funcs / unexported fields: keep it safe
func safeFormat(v reflect.Value) (out any) {
	defer func() {
		if recover() != nil {
			out = "<unprintable>"
		}
	}()
	return v.Interface()
}

var _ = bytes.Equal
