package main

// Directed oracles that came out of the adversarial ("blind spot") round of seeded changes: entry points and
// type shapes the generic generators do not reach.  Each is called from the family whose report serves the
// property it speaks about.

import (
	"encoding/json"
	"errors"
	"fmt"
	"reflect"
	"strings"
	"time"

	"github.com/reusee/sb"
)

// ---- C01: a type with its own sb hooks AND (promoted) encoding hooks round-trips through its sb hooks ----

type DualHook struct {
	time.Time
	Label string
}

func (s DualHook) MarshalSB(ctx sb.Ctx, cont sb.Proc) sb.Proc {
	return ctx.Marshal(ctx, reflect.ValueOf(sb.Tuple{s.UnixNano(), s.Label}), cont)
}

func (s *DualHook) UnmarshalSB(ctx sb.Ctx, cont sb.Sink) sb.Sink {
	return ctx.Unmarshal(ctx, reflect.ValueOf(func(nanos int64, label string) {
		s.Time = time.Unix(0, nanos).UTC()
		s.Label = label
	}), cont)
}

func typedDualHook(repU *Report) {
	a := DualHook{Time: time.Date(2024, 2, 29, 12, 0, 0, 123, time.UTC), Label: "leap"}
	b := DualHook{Time: time.Unix(1, 0).UTC(), Label: ""}
	type doc struct {
		Created DualHook
		History []DualHook
		Last    *DualHook
		M       map[string]DualHook
	}
	same := func(x, y DualHook) bool { return x.Time.Equal(y.Time) && x.Label == y.Label }
	check := func(name string, v, back any, ok func() bool) {
		ts, err := marshalTokens(v, nil)
		repU.Evaluations++
		repU.count("c01:dual-hook")
		desc := "sb hooks + promoted encoding hooks: " + name
		if err != nil {
			repU.violate("C01", "marshal-error", fmt.Sprintf("%v", err), desc)
			return
		}
		e := guard(func() error { return copyBudget(tokensFrom(ts), sb.Unmarshal(back)) })
		if e != nil || !ok() {
			repU.violate("C01", "roundtrip-error", fmt.Sprintf("a type with MarshalSB/UnmarshalSB and promoted Binary/Text hooks does not round-trip through its own stream [%s]: %v", truncate(descTokens(ts), 300), e), desc)
		}
	}
	var out DualHook
	check("top level", a, &out, func() bool { return same(out, a) })
	d := doc{Created: a, History: []DualHook{a, b}, Last: &b, M: map[string]DualHook{"k": a}}
	var d2 doc
	check("nested", d, &d2, func() bool {
		return same(d2.Created, a) && len(d2.History) == 2 && same(d2.History[1], b) && d2.Last != nil && same(*d2.Last, b) && same(d2.M["k"], a)
	})
}

// ---- C16: the deprecation verdict of a field name belongs to ONE reader type ----

type deprBase struct{}

func (deprBase) SBDeprecatedFields() []string { return []string{"Old"} }

func typedDeprecationMemo(repU *Report) {
	obj := []sb.Token{tokK(sb.KindObject), tokS("Old"), tokI(1), tokS("Keep"), tokI(2), tokK(sb.KindObjectEnd)}
	// two pairs of anonymous struct types (their type name is empty): one of each pair declares "Old" deprecated
	// through a promoted method; the pairs are visited in opposite orders
	type tcase struct {
		name string
		t    reflect.Type
		depr bool
	}
	a1 := reflect.TypeOf(struct {
		deprBase
		Keep int
	}{})
	b1 := reflect.TypeOf(struct{ Keep int }{})
	a2 := reflect.TypeOf(struct {
		deprBase
		Keep int
		More string
	}{})
	b2 := reflect.TypeOf(struct {
		Keep int
		More string
	}{})
	func() {
		type Local struct{ Keep int }
		b3 := reflect.TypeOf(Local{})
		func() {
			type Local struct {
				deprBase
				Keep int
			}
			a3 := reflect.TypeOf(Local{})
			for round := 0; round < 2; round++ {
				for _, c := range []tcase{{"anonymous, declares Old deprecated", a1, true}, {"anonymous, declares nothing", b1, false},
					{"anonymous, declares nothing (visited first)", b2, false}, {"anonymous, declares Old deprecated (visited second)", a2, true},
					{"function-local Local, declares nothing", b3, false}, {"another function-local Local, declares Old deprecated", a3, true}} {
					uctx := mkCtx(false, true)
					target := reflect.New(c.t)
					e := guard(func() error {
						uctx.Unmarshal = sb.UnmarshalValue
						return copyBudget(tokensFrom(obj), sb.UnmarshalValue(uctx, target, nil))
					})
					repU.Evaluations++
					repU.count("c16:deprecation-per-type")
					desc := fmt.Sprintf("strict mode, field Old, reader type %v (%s), round %d", c.t, c.name, round)
					switch {
					case classOf(e) == "EPanic":
						repU.violate("C16", "evolution-panic", fmt.Sprintf("%v", e), desc)
					case c.depr && e != nil:
						repU.violate("C16", "deprecated-or-unknown-not-skipped", fmt.Sprintf("the type declares Old deprecated but the stream was rejected: %v", e), desc)
					case !c.depr && classOf(e) != "EUnknownField":
						repU.violate("C16", "strict-unknown-accepted", fmt.Sprintf("strict mode, unknown field Old in a type that declares no deprecation: %v", e), desc)
					}
				}
			}
		}()
	}()
}

// ---- C14: a sink never changes what the other sinks of the same Copy / the consumer behind a Tee see ----

func streamsSharedToken(rep *Report, props ...string) {
	if len(props) == 0 {
		props = []string{"C14"}
	}
	viol := func(key, what, input string) {
		for _, p := range props {
			rep.violate(p, key, what, input)
		}
	}
	lit := func(s string) sb.Token { return sb.Token{Kind: sb.KindLiteral, Value: s} }
	type tgt struct {
		name string
		mk   func() any
	}
	tgts := []tgt{{"int32", func() any { return new(int32) }}, {"float64", func() any { return new(float64) }}, {"uint8", func() any { return new(uint8) }},
		{"string", func() any { return new(string) }}, {"[]int", func() any { return new([]int) }}, {"struct{A float32; B []int16}", func() any {
			return new(struct {
				A float32
				B []int16
			})
		}}, {"any", func() any { return new(any) }}}
	streams := [][]sb.Token{
		{lit("42")}, {lit("1.5")}, {lit("7")},
		{tokK(sb.KindArray), lit("1"), lit("2"), tokK(sb.KindArrayEnd)},
		{tokK(sb.KindObject), tokS("A"), lit("2.5"), tokS("B"), tokK(sb.KindArray), lit("3"), tokK(sb.KindArrayEnd), tokK(sb.KindObjectEnd)},
		{tokI(5)}, {tokS("x")},
	}
	for _, ts := range streams {
		for _, tg := range tgts {
			desc := fmt.Sprintf("target=%s stream=[%s]", tg.name, descTokens(ts))
			// Copy: the unmarshalling sink first, a recording sink second (and the other way round)
			for order := 0; order < 2; order++ {
				var rec []sb.Token
				var recSink sb.Sink
				recSink = func(t *sb.Token) (sb.Sink, error) {
					if t.Invalid() {
						return nil, nil
					}
					rec = append(rec, *t)
					return recSink, nil
				}
				um := sb.Unmarshal(tg.mk())
				_ = guard(func() error {
					if order == 0 {
						return sb.Copy(tokensFrom(ts), um, recSink)
					}
					return sb.Copy(tokensFrom(ts), recSink, um)
				})
				rep.Evaluations++
				rep.count("c14:shared-token")
				// the recorder sees a prefix of the source (the whole of it unless the other sink failed first)
				if len(rec) > len(ts) || !tokensExactEq(rec, ts[:len(rec)]) {
					viol("sink-changes-what-others-see", fmt.Sprintf("a recording sink next to an Unmarshal sink (order %d) saw [%s], the source delivers [%s]", order, descTokens(rec), descTokens(ts)), desc)
				}
			}
			// Tee with an unmarshalling side sink: the consumer behind it
			out, _ := collect(sb.Tee(tokensFrom(ts), sb.Unmarshal(tg.mk())))
			rep.Evaluations++
			if len(out) > len(ts) || !tokensExactEq(out, ts[:len(out)]) {
				viol("sink-changes-what-others-see", fmt.Sprintf("behind a Tee with an Unmarshal side sink the consumer saw [%s], the source delivers [%s]", descTokens(out), descTokens(ts)), desc)
			}
		}
	}
}

// ---- C15: a fault while marshalling surfaces with its cause, wherever it is planted ----

type failKey struct{ N int }

func (k failKey) MarshalText() ([]byte, error) {
	if k.N < 0 {
		return nil, errInjected
	}
	return []byte(fmt.Sprintf("k%d", k.N)), nil
}

func streamsMarshalFaults(rep *Report) {
	type S struct {
		A int
		F failKey
	}
	vals := []struct {
		name string
		v    any
	}{
		{"map key", map[failKey]int{{1}: 1, {-1}: 2}},
		{"only map key", map[failKey]int{{-1}: 2}},
		{"map key in a struct field", struct{ M map[failKey]string }{map[failKey]string{{-5}: "x"}}},
		{"map value", map[string]failKey{"a": {1}, "b": {-1}}},
		{"struct field", S{1, failKey{-1}}},
		{"slice element", []failKey{{1}, {2}, {-1}, {3}}},
		{"behind a pointer in an interface", []any{1, &failKey{-1}}},
		{"tuple func result", func() (int, failKey) { return 1, failKey{-1} }},
	}
	for _, c := range vals {
		ts, err := collect(sb.Marshal(c.v))
		rep.Evaluations++
		rep.count("c15:marshal-fault")
		desc := "failing TextMarshaler planted at: " + c.name
		switch {
		case classOf(err) == "EPanic":
			rep.violate("C15", "marshal-fault-panic", fmt.Sprintf("%v", err), desc)
		case err == nil:
			rep.violate("C15", "stream-fault-lost", fmt.Sprintf("a marshaller failed but the stream ended cleanly after %d tokens", len(ts)), desc)
		case !errors.Is(err, errInjected):
			rep.violate("C15", "fault-cause-lost", fmt.Sprintf("the stream failed with %q, which does not wrap the marshaller's own error", truncate(strings.ReplaceAll(err.Error(), "\n", " / "), 200)), desc)
		}
	}
}

// ---- C15 / C10: a resolved sub-stream that fails part-way fails the dereferenced stream ----

func streamsDerefSubFault(rep *Report) {
	sub := []sb.Token{tokK(sb.KindArray), tokI(1), tokS("x"), tokK(sb.KindArrayEnd)}
	outer := []sb.Token{tokK(sb.KindArray), tokI(0), {Kind: sb.KindRef, Value: []byte("h1")}, tokI(9), tokK(sb.KindArrayEnd)}
	for k := 0; k <= len(sub); k++ {
		kk := k
		resolver := func(h []byte) (sb.Stream, error) {
			n := 0
			var p sb.Proc
			p = func(t *sb.Token) (sb.Proc, error) {
				if n == kk {
					return nil, errInjected
				}
				*t = sub[n]
				n++
				if n == len(sub) && kk > len(sub) {
					return nil, nil
				}
				return p, nil
			}
			return &p, nil
		}
		out, err := collect(sb.Deref(tokensFrom(outer), resolver))
		rep.Evaluations++
		rep.count("c15:deref-sub-fault")
		desc := fmt.Sprintf("resolver returns a stream of %d tokens that fails before token %d", len(sub), k)
		want := append(append([]sb.Token{}, outer[:2]...), sub[:k]...)
		switch {
		case err == nil:
			rep.violate("C15", "stream-fault-lost", fmt.Sprintf("the resolved sub-stream failed but Deref ended cleanly with [%s]", descTokens(out)), desc)
		case !errors.Is(err, errInjected):
			rep.violate("C15", "fault-cause-lost", fmt.Sprintf("Deref failed with %v, which does not wrap the sub-stream's error", err), desc)
		case !tokensExactEq(out, want):
			rep.violate("C15", "fault-prefix", fmt.Sprintf("tokens before the fault [%s], expected [%s]", descTokens(out), descTokens(want)), desc)
		}
	}
}

// ---- C20: promoted fields of embedded structs, as encoding/json resolves them ----

type EmbLeft struct{ X, P int }
type EmbRight struct{ X, Q int }
type EmbAmbiguous struct {
	EmbLeft
	EmbRight
	Y int
}
type EmbDeepInner struct{ Z int }
type EmbDeep struct{ EmbDeepInner }
type EmbShallow struct{ Z int }
type EmbDepth struct {
	EmbDeep
	EmbShallow
	W int
}
type EmbShadow struct {
	EmbLeft
	X string
}

func jsonEmbedded(rep *Report) {
	// (numbers only where the target's position is numeric: C20 speaks about such targets)
	// (and no key naming an embedded struct by its type: sb writes and reads embedded structs under that name,
	// encoding/json flattens them - a difference of the two formats, not of the decoders)
	numDocs := []string{`{"X":5,"Y":6,"P":1,"Q":2}`, `{"Z":7,"W":8}`, `{"X":1}`, `{"Q":4,"X":9,"P":5}`, `{"W":1,"Z":2,"Q":3}`}
	strDocs := []string{`{"X":"s","P":3}`, `{"P":3}`, `{"X":"t"}`}
	type job struct {
		docs []string
		mk   func() any
	}
	jobs := []job{{numDocs, func() any { return new(EmbAmbiguous) }}, {numDocs, func() any { return new(EmbDepth) }}, {strDocs, func() any { return new(EmbShadow) }}}
	for _, j := range jobs {
		m := j.mk
		for _, doc := range j.docs {
			got, ref := m(), m()
			eU := guard(func() error {
				return copyBudget(sb.DecodeJson(strings.NewReader(doc), nil), sb.Unmarshal(got))
			})
			eJ := json.Unmarshal([]byte(doc), ref)
			rep.Evaluations++
			rep.count("c20:embedded-promotion")
			desc := fmt.Sprintf("target=%T json=%s", got, doc)
			switch {
			case classOf(eU) == "EPanic":
				rep.violate("C20", "json-unmarshal-panic", fmt.Sprintf("%v", eU), desc)
			case (eU == nil) != (eJ == nil):
				rep.violate("C20", "differs-from-encoding-json", fmt.Sprintf("sb: %v; encoding/json: %v", eU, eJ), desc)
			case eU == nil && !reflect.DeepEqual(got, ref):
				rep.violate("C20", "differs-from-encoding-json", fmt.Sprintf("sb gives %+v, encoding/json gives %+v", reflect.ValueOf(got).Elem().Interface(), reflect.ValueOf(ref).Elem().Interface()), desc)
			}
		}
	}
}

// ---- C08 / C18: a nil pointer to a type with marshalling hooks, held in an INTERFACE position ----
// (a nil pointer in an interface is not a nil interface: every such position must marshal to Nil,
// whatever the level of indirection, and never call the value-receiver hook through the nil pointer)
type valueHook struct{ N int }

func (v valueHook) MarshalSB(ctx sb.Ctx, cont sb.Proc) sb.Proc {
	return ctx.Marshal(ctx, reflect.ValueOf(v.N), cont)
}

type textHook struct{ N int }

func (v textHook) MarshalText() ([]byte, error) { return []byte(fmt.Sprint(v.N)), nil }

func typedNilHookInInterface(repM *Report) {
	nils := []any{(*time.Time)(nil), (*valueHook)(nil), (*textHook)(nil), (**time.Time)(nil)}
	for _, n := range nils {
		boxed := n
		var twice any = &boxed
		positions := map[string]any{
			"direct":             n,
			"*any":               &boxed,
			"**any":              &twice,
			"[]any":              []any{n},
			"struct{A any}":      struct{ A any }{n},
			"map[string]any":     map[string]any{"k": n},
			"[1]any":             [1]any{n},
			"*struct{A any}":     &struct{ A any }{n},
			"func() any (tuple)": func() any { return n },
		}
		for name, v := range positions {
			ts, err := marshalTokens(v, nil)
			repM.Evaluations++
			repM.count("c08:nil-hook-in-interface")
			desc := fmt.Sprintf("nil pointer with marshalling hooks in an interface position: %T as %s", n, name)
			if classOf(err) == "EPanic" || classOf(err) == "EDiverge" {
				repM.violate("C18", "marshal-panic", fmt.Sprintf("Marshal panicked: %v", err), desc)
				repM.violate("C08", "indirection-changes-stream", fmt.Sprintf("a nil pointer marshals to Nil directly but panics in this position: %v", err), desc)
				continue
			}
			nilCount := 0
			for _, t := range ts {
				if t.Kind == sb.KindNil {
					nilCount++
				}
			}
			if err != nil || nilCount != 1 {
				repM.violate("C08", "indirection-changes-stream", fmt.Sprintf("expected exactly one Nil token for the nil pointer, got [%s] (%v)", descTokens(ts), err), desc)
			}
		}
	}
}
