package main

import (
	"bytes"
	"encoding/json"
	"fmt"
	"math/rand"
	"reflect"
	"strings"

	"github.com/reusee/sb"
)

// JSON AST on the Go side
type jnode struct {
	kind    string // null bool num str arr obj
	b       bool
	text    string // number text / string content
	items   []*jnode
	keys    []string
	members []*jnode
}

func (j *jnode) coq() string {
	switch j.kind {
	case "null":
		return "JNull"
	case "bool":
		return "(JBool " + coqBool(j.b) + ")"
	case "num":
		return "(JNum " + coqStrBytes(j.text) + ")"
	case "str":
		return "(JStr " + coqStrBytes(j.text) + ")"
	case "arr":
		var xs []string
		for _, it := range j.items {
			xs = append(xs, it.coq())
		}
		return "(JArr [" + strings.Join(xs, "; ") + "])"
	default:
		var xs []string
		for i, m := range j.members {
			xs = append(xs, "("+coqStrBytes(j.keys[i])+", "+m.coq()+")")
		}
		return "(JObj [" + strings.Join(xs, "; ") + "])"
	}
}

// the tokens of the document in order (delimiters, keys, scalars), as text fragments to be joined
type jfrag struct {
	text  string
	isKey bool
	open  bool
	close bool
}

func (j *jnode) frags(out []jfrag) []jfrag {
	switch j.kind {
	case "null":
		return append(out, jfrag{text: "null"})
	case "bool":
		if j.b {
			return append(out, jfrag{text: "true"})
		}
		return append(out, jfrag{text: "false"})
	case "num":
		return append(out, jfrag{text: j.text})
	case "str":
		return append(out, jfrag{text: jsonQuote(j.text)})
	case "arr":
		out = append(out, jfrag{text: "[", open: true})
		for _, it := range j.items {
			out = it.frags(out)
		}
		return append(out, jfrag{text: "]", close: true})
	default:
		out = append(out, jfrag{text: "{", open: true})
		for i, m := range j.members {
			out = append(out, jfrag{text: jsonQuote(j.keys[i]), isKey: true})
			out = m.frags(out)
		}
		return append(out, jfrag{text: "}", close: true})
	}
}

func jsonQuote(s string) string {
	bs, _ := json.Marshal(s)
	return string(bs)
}

// render the first k token fragments (k<0: all) with separators and random whitespace
func renderFrags(r *rand.Rand, fs []jfrag, k int) string {
	if k < 0 || k > len(fs) {
		k = len(fs)
	}
	var b strings.Builder
	ws := func() {
		switch r.Intn(6) {
		case 0:
			b.WriteString(" ")
		case 1:
			b.WriteString("\n\t")
		}
	}
	type frame struct {
		obj   bool
		count int
	}
	var stack []frame
	for i := 0; i < k; i++ {
		f := fs[i]
		if len(stack) > 0 && !f.close {
			top := &stack[len(stack)-1]
			if top.obj {
				if f.isKey {
					if top.count > 0 {
						b.WriteString(",")
					}
				} else {
					b.WriteString(":")
				}
			} else if top.count > 0 {
				b.WriteString(",")
			}
			if !top.obj || !f.isKey {
				top.count++
			}
		}
		ws()
		b.WriteString(f.text)
		ws()
		if f.open {
			stack = append(stack, frame{obj: f.text == "{"})
		}
		if f.close {
			stack = stack[:len(stack)-1]
		}
	}
	return b.String()
}

var jsonNumbers = []string{"0", "-0", "1", "-1", "42", "127", "128", "-128", "-129", "255", "256", "32767", "32768", "65535", "65536", "2147483647", "2147483648", "-2147483648", "4294967295",
	"9223372036854775807", "9223372036854775808", "-9223372036854775808", "18446744073709551615", "1.5", "-2.25", "1e2", "1E+2", "1.5e-3", "0.1", "3.4028235e38", "1e39", "1e400", "123456789012345678901234567890", "0.000001", "2e0", "4e38", "1e100", "1.00000005960464477539062500001", "16777217", "0.1e-44", "-3.5e38",
	// more decimals within float64 rounding distance of a float32 midpoint (double rounding)
	"1.0000000596046447753906250000001", "1.00000017881393432617187499999", "0.50000002980232238769531250001", "16777217.000000000000000001", "3.4028235677973366e38", "3.40282356779733661637539395458142568448e38", "7.006492321624085e-46", "7.0064923216240853546186479164495806564013097093825788587853e-46"}

func randJSONString(r *rand.Rand) string {
	pool := []string{"", "a", "hello world", "quote\"back\\slash", "tab\tnl\n", "\u00e9\u4e16\u754c", "\u0001ctl", "slash/", "<>&", "\U0001F600", "nul\x00"}
	if r.Intn(3) == 0 {
		return pool[r.Intn(len(pool))]
	}
	return string(payloadASCII(r, r.Intn(10)))
}

func payloadASCII(r *rand.Rand, n int) []byte {
	bs := make([]byte, n)
	for i := range bs {
		bs[i] = byte(32 + r.Intn(95))
	}
	return bs
}

// a target type and a document conforming to it
func randJSONPair(r *rand.Rand, depth int) (reflect.Type, *jnode) {
	c := r.Intn(12)
	if depth <= 0 || c < 5 {
		switch r.Intn(6) {
		case 0:
			return reflect.TypeOf(false), &jnode{kind: "bool", b: r.Intn(2) == 0}
		case 1:
			return reflect.TypeOf(""), &jnode{kind: "str", text: randJSONString(r)}
		case 2:
			t := scalarTypes[1+r.Intn(13)] // a numeric type
			return t, &jnode{kind: "num", text: jsonNumbers[r.Intn(len(jsonNumbers))]}
		case 3:
			t := []reflect.Type{reflect.TypeOf(0), reflect.TypeOf(int64(0)), reflect.TypeOf(float64(0)), reflect.TypeOf(uint32(0))}[r.Intn(4)]
			return t, &jnode{kind: "num", text: fmt.Sprintf("%d", r.Intn(2000))}
		case 4:
			t, _ := randJSONPair(r, 0)
			return reflect.PtrTo(t), &jnode{kind: "null"}
		default:
			t, _ := randJSONPair(r, 0)
			return t, &jnode{kind: "null"}
		}
	}
	switch {
	case c < 8:
		et, _ := randJSONPair(r, depth-1)
		n := r.Intn(4)
		arr := &jnode{kind: "arr"}
		for i := 0; i < n; i++ {
			arr.items = append(arr.items, randJSONValueFor(r, et, depth-1))
		}
		return reflect.SliceOf(et), arr
	case c < 11:
		n := r.Intn(4)
		var fs []reflect.StructField
		obj := &jnode{kind: "obj"}
		for i := 0; i < n; i++ {
			ft, fv := randJSONPair(r, depth-1)
			name := fmt.Sprintf("F%d", i)
			fs = append(fs, reflect.StructField{Name: name, Type: ft})
			if r.Intn(5) != 0 { // some fields are absent from the document
				obj.keys = append(obj.keys, name)
				obj.members = append(obj.members, fv)
			}
		}
		// unknown members, in random positions
		for i, m := 0, r.Intn(3); i < m; i++ {
			_, uv := randJSONPair(r, 1)
			pos := r.Intn(len(obj.keys) + 1)
			obj.keys = append(obj.keys[:pos:pos], append([]string{fmt.Sprintf("Unknown%d", i)}, obj.keys[pos:]...)...)
			obj.members = append(obj.members[:pos:pos], append([]*jnode{uv}, obj.members[pos:]...)...)
		}
		if r.Intn(3) == 0 {
			r.Shuffle(len(obj.keys), func(i, j int) {
				obj.keys[i], obj.keys[j] = obj.keys[j], obj.keys[i]
				obj.members[i], obj.members[j] = obj.members[j], obj.members[i]
			})
		}
		return reflect.StructOf(fs), obj
	default:
		t, v := randJSONPair(r, depth-1)
		return reflect.PtrTo(t), v
	}
}

// another document of the same shape (for slice elements)
func randJSONValueFor(r *rand.Rand, t reflect.Type, depth int) *jnode {
	switch t.Kind() {
	case reflect.Bool:
		return &jnode{kind: "bool", b: r.Intn(2) == 0}
	case reflect.String:
		return &jnode{kind: "str", text: randJSONString(r)}
	case reflect.Slice:
		n := r.Intn(3)
		arr := &jnode{kind: "arr"}
		for i := 0; i < n; i++ {
			arr.items = append(arr.items, randJSONValueFor(r, t.Elem(), depth-1))
		}
		return arr
	case reflect.Ptr:
		if r.Intn(3) == 0 {
			return &jnode{kind: "null"}
		}
		return randJSONValueFor(r, t.Elem(), depth-1)
	case reflect.Struct:
		obj := &jnode{kind: "obj"}
		for i := 0; i < t.NumField(); i++ {
			if r.Intn(4) != 0 {
				obj.keys = append(obj.keys, t.Field(i).Name)
				obj.members = append(obj.members, randJSONValueFor(r, t.Field(i).Type, depth-1))
			}
		}
		return obj
	default:
		if r.Intn(8) == 0 {
			return &jnode{kind: "null"}
		}
		return &jnode{kind: "num", text: jsonNumbers[r.Intn(len(jsonNumbers))]}
	}
}

func decodeJSONImpl(text string) ([]sb.Token, error) {
	var ts []sb.Token
	err := guard(func() error {
		var e error
		ts, e = collectN(sb.DecodeJson(strings.NewReader(text), nil), 100000)
		return e
	})
	return ts, err
}

func famJSON(dir string, seed int64, tier string) {
	thorough := tier == "thorough"
	rep := newReport("json", seed, tier)
	rep.Rule = "JSON documents generated type-first from a recursive grammar (depth<=5: bool, all integer and float widths, strings with escapes and non-ASCII, slices, structs with absent / unknown / permuted members, pointers, nulls; numbers at the range boundaries of every width, fractional and exponent forms) rendered with random whitespace; documents cut after k tokens; syntactically broken documents (Go oracle only); non-trivial = at least 3 tokens; distinct by case text"
	w := newCaseWriter(dir, "json", "Corr_json", "json_case", "check_json", 150, rep)
	wJ := newCaseWriter(dir, "jdec", "Corr_json", "jdec_case", "check_jdec", 200, rep)
	sobs := func(v reflect.Value, e error) string {
		if e != nil {
			return "SErr"
		}
		return "(SOk " + coqGval(v) + ")"
	}
	r := newRand(seed, "json")
	n := 500
	if thorough {
		n = 10000
	}
	for i := 0; i < n; i++ {
		t, doc := randJSONPair(r, 1+r.Intn(5))
		fs := doc.frags(nil)
		if len(fs) > 150 {
			continue
		}
		keep := -1
		if i%6 == 5 && len(fs) > 1 {
			keep = 1 + r.Intn(len(fs)-1)
		}
		text := renderFrags(r, fs, keep)
		desc := fmt.Sprintf("target=%v json=%s", t, truncate(text, 400))
		ts, err := decodeJSONImpl(text)
		rep.Evaluations++
		rep.count("end:" + classOf(err))
		tyS := coqTy(t)
		if classOf(err) == "EPanic" {
			rep.violate("C20", "json-panic", fmt.Sprintf("%v", err), desc)
		}
		keepS := "None"
		if keep >= 0 {
			keepS = fmt.Sprintf("(Some %d%%nat)", keep)
			if err == nil && cutInside(fs, keep) {
				rep.violate("C20", "truncated-json-clean-end", fmt.Sprintf("a document cut after %d of %d tokens decodes to a clean end of stream (%d tokens)", keep, len(fs), len(ts)), desc)
			}
		} else if err != nil {
			rep.violate("C20", "json-decode-error", fmt.Sprintf("DecodeJson failed on a well-formed document: %v", err), desc)
		}
		var back reflect.Value
		var eU error
		if err == nil {
			back, eU = unmarshalInto(t, ts, nil)
			rep.Evaluations++
			if classOf(eU) == "EPanic" {
				rep.violate("C20", "json-unmarshal-panic", fmt.Sprintf("%v", eU), desc)
			}
			// the oracle the property names: encoding/json on the same target
			if keep < 0 {
				ref := reflect.New(t)
				eJ := json.Unmarshal([]byte(text), ref.Interface())
				// the reference semantics on the document (Spec/JsonDecode.v) against the real encoding/json
				wJ.add(fmt.Sprintf("JdecCase %s %s %s %s", doc.coq(), tyS, floatTable(ts), sobs(ref.Elem(), eJ)), "jdec: "+desc, len(fs) >= 3)
				if (eJ == nil) != (eU == nil) {
					rep.violate("C20", "differs-from-encoding-json", fmt.Sprintf("sb: %v; encoding/json: %v", eU, eJ), desc)
				} else if eJ == nil && !equivValues(ref.Elem(), back) {
					rep.violate("C20", "differs-from-encoding-json", fmt.Sprintf("sb gives %s, encoding/json gives %s", truncate(fmt.Sprintf("%+v", safeFormat(back)), 200), truncate(fmt.Sprintf("%+v", safeFormat(ref.Elem())), 200)), desc)
				}
			}
		} else {
			back, eU = reflect.Zero(t), err
		}
		w.add(fmt.Sprintf("JsonCase %s %s %s %s %s %s %s", doc.coq(), keepS, coqTokens(ts), classOf(err), tyS, floatTable(ts), uobs(back, eU)), desc, len(fs) >= 3)
	}
	// every number form against every numeric target type (scalar position)
	for _, num := range jsonNumbers {
		for _, t := range scalarTypes[1:14] {
			doc := &jnode{kind: "num", text: num}
			ts, err := decodeJSONImpl(num)
			if err != nil {
				rep.violate("C20", "json-decode-error", fmt.Sprintf("DecodeJson failed on the number %s: %v", num, err), num)
				continue
			}
			back, eU := unmarshalInto(t, ts, nil)
			rep.Evaluations++
			ref := reflect.New(t)
			eJ := json.Unmarshal([]byte(num), ref.Interface())
			desc := fmt.Sprintf("target=%v json=%s", t, num)
			if (eJ == nil) != (eU == nil) {
				rep.violate("C20", "differs-from-encoding-json", fmt.Sprintf("sb: %v; encoding/json: %v", eU, eJ), desc)
			} else if eJ == nil && !equivValues(ref.Elem(), back) {
				rep.violate("C20", "differs-from-encoding-json", fmt.Sprintf("sb gives %v, encoding/json gives %v", safeFormat(back), safeFormat(ref.Elem())), desc)
			}
			w.add(fmt.Sprintf("JsonCase %s None %s %s %s %s %s", doc.coq(), coqTokens(ts), classOf(err), coqTy(t), floatTable(ts), uobs(back, eU)), desc, true)
			wJ.add(fmt.Sprintf("JdecCase %s %s %s %s", doc.coq(), coqTy(t), floatTable(ts), sobs(ref.Elem(), eJ)), "jdec: "+desc, true)
		}
	}
	// one JSON stream fanned out to several consumers: every consumer must see the document as if alone
	for _, doc := range []string{"[1,2,300]", "{\"A\":3e2,\"B\":[1.5,2]}", "42", "[0.1,1e2,7]"} {
		type S struct {
			A float64
			B []float64
		}
		mk := func() []any {
			switch doc[0] {
			case '[':
				return []any{new([]int16), new([]float64), new([]float32), new([]uint64)}
			case '{':
				return []any{new(S), new(struct {
					A float32
					B []float32
				})}
			default:
				return []any{new(int8), new(float64), new(uint16)}
			}
		}
		alone := mk()
		var aloneErr []string
		for _, t := range alone {
			e := guard(func() error { return sb.Copy(sb.DecodeJson(strings.NewReader(doc), nil), sb.Unmarshal(t)) })
			aloneErr = append(aloneErr, classOf(e))
		}
		// individually tolerant sinks: an error of one consumer must not be caused by another
		for i := range alone {
			for j := range alone {
				if i == j || aloneErr[i] != "ENone" || aloneErr[j] != "ENone" {
					continue
				}
				both := mk()
				e := guard(func() error {
					return sb.Copy(sb.DecodeJson(strings.NewReader(doc), nil), sb.Unmarshal(both[i]), sb.Unmarshal(both[j]))
				})
				rep.Evaluations++
				desc := fmt.Sprintf("fan-out json=%s targets=%T,%T", doc, both[i], both[j])
				if e != nil || !reflect.DeepEqual(both[i], alone[i]) || !reflect.DeepEqual(both[j], alone[j]) {
					rep.violate("C20", "fan-out-differs", fmt.Sprintf("two consumers of one JSON stream: %v; values %v / %v, alone %v / %v", e, reflect.ValueOf(both[i]).Elem(), reflect.ValueOf(both[j]).Elem(), reflect.ValueOf(alone[i]).Elem(), reflect.ValueOf(alone[j]).Elem()), desc)
				}
			}
		}
		// Tee: the downstream consumer still sees literal tokens with their source text
		var side any
		if doc[0] == '[' {
			side = new([]float32)
		} else if doc[0] == '{' {
			side = new(S)
		} else {
			side = new(float32)
		}
		want, _ := decodeJSONImpl(doc)
		var got []sb.Token
		e := guard(func() error {
			var e2 error
			got, e2 = collectN(sb.Tee(sb.DecodeJson(strings.NewReader(doc), nil), sb.Unmarshal(side)), 10000)
			return e2
		})
		rep.Evaluations++
		if e != nil || !tokensExactEq(got, want) {
			rep.violate("C20", "fan-out-differs", fmt.Sprintf("tokens downstream of a Tee with an Unmarshal side sink: (%v) [%s], without it [%s]", e, descTokens(got), descTokens(want)), "tee json="+doc)
		}
	}
	// syntactically broken documents: must be errors (Go oracle only)
	broken := []string{"[1,2", "{\"a\":1", "[1 2]", "{\"a\" 1}", "{a:1}", "[1,]", "tru", "\"abc", "[}", "{]", "nul", "-", "1e", "[1,2]]", "{\"a\":1}}", "\"\\u12\"", "[\"a\",", "{\"a\":", "{\"a\"", "01", "+1", ".5", "[", "{", "",
		// a byte order mark is not JSON (encoding/json and json.Valid reject it), nor are other leading marks
		"\xef\xbb\xbf42", "\xef\xbb\xbf{\"a\":1}", "\xef\xbb\xbf [1]", "\xfe\xff[1]", "\xff\xfe[1]", "\x00[1]", "\xef\xbb[1]", "[1]\xef\xbb\xbf", "\xef\xbb\xbf\xef\xbb\xbf1"}
	for _, text := range broken {
		ts, err := decodeJSONImpl(text)
		rep.Evaluations++
		desc := "broken json=" + text
		if classOf(err) == "EPanic" {
			rep.violate("C20", "json-panic", fmt.Sprintf("%v", err), desc)
		}
		if err == nil && text != "" && !validJSONStream(text) {
			rep.violate("C20", "malformed-json-accepted", fmt.Sprintf("malformed JSON decodes to a clean end of stream (%d tokens: %s)", len(ts), descTokens(ts)), desc)
		}
	}
	// rejected documents leave a pre-populated slice target as the standard decoder leaves it: untouched
	for _, doc := range []string{"[1, 2", "[1, 2 3]", "[1, 2, tru]", "[1,\"x\"]"} {
		a, b := []int{7}, []int{7}
		e := guard(func() error { return sb.Copy(sb.DecodeJson(strings.NewReader(doc), nil), sb.Unmarshal(&a)) })
		je := json.Unmarshal([]byte(doc), &b)
		rep.Evaluations++
		if e == nil || je == nil {
			continue
		}
		if !reflect.DeepEqual(a, []int{7}) {
			rep.violate("C20", "differs-from-encoding-json", fmt.Sprintf("after the rejected document the []int{7} target holds %v with sb, %v with encoding/json: a slice is replaced only when its value is complete", a, b), "broken json="+doc)
		}
	}
	type hs struct {
		Name string
		Xs   []int
	}
	for _, doc := range []string{`{"Name":"n","Xs":[1, 2`, `{"Name":"n","Xs":[1,"x"]}`} {
		a := hs{Xs: []int{7}}
		e := guard(func() error { return sb.Copy(sb.DecodeJson(strings.NewReader(doc), nil), sb.Unmarshal(&a)) })
		if e != nil && !reflect.DeepEqual(a.Xs, []int{7}) {
			rep.violate("C20", "differs-from-encoding-json", fmt.Sprintf("after the rejected document the field Xs holds %v: a slice is replaced only when its value is complete", a.Xs), "broken json="+doc)
		}
	}
	w.flush()
	wJ.flush()
	jsonEmbedded(rep)
	jsonEmbeddedPtr(rep)
	rep.write(dir)
}

// does the cut leave a container open (or end before anything was read)?
func cutInside(fs []jfrag, k int) bool {
	depth := 0
	for i := 0; i < k; i++ {
		if fs[i].open {
			depth++
		}
		if fs[i].close {
			depth--
		}
	}
	return depth > 0
}

// a sequence of complete JSON values (encoding/json's tokenizer accepts several top-level values)
func validJSONStream(text string) bool {
	dec := json.NewDecoder(bytes.NewReader([]byte(text)))
	for {
		var v any
		if err := dec.Decode(&v); err != nil {
			return err.Error() == "EOF"
		}
	}
}
