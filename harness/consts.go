package main

import (
	"fmt"
	"os"
	"path/filepath"
	"strings"

	"github.com/reusee/sb"
)

// dump the constants the built package actually has into Gen/Consts.v
func dumpConsts(dir string) {
	kinds := []sb.Kind{
		sb.KindInvalid, sb.KindMin, sb.KindArrayEnd, sb.KindObjectEnd, sb.KindMapEnd, sb.KindTupleEnd,
		sb.KindNil, sb.KindBool, sb.KindStringEnd, sb.KindString, sb.KindStringBegin,
		sb.KindBytesEnd, sb.KindBytes, sb.KindBytesBegin,
		sb.KindInt, sb.KindInt8, sb.KindInt16, sb.KindInt32, sb.KindInt64,
		sb.KindUint, sb.KindUint8, sb.KindUint16, sb.KindUint32, sb.KindUint64,
		sb.KindFloat32, sb.KindFloat64, sb.KindNaN,
		sb.KindArray, sb.KindObject, sb.KindMap, sb.KindTuple,
		sb.KindTypeName, sb.KindLiteral, sb.KindPointer, sb.KindRef, sb.KindMax,
	}
	var b strings.Builder
	b.WriteString("(* generated on every run from the built package by `sbverif consts` *)\n")
	b.WriteString("From Coq Require Import NArith List.\nImport ListNotations.\nLocal Open Scope N_scope.\n")
	b.WriteString("Definition generated_consts : list N := [")
	for i, k := range kinds {
		if i > 0 {
			b.WriteString("; ")
		}
		fmt.Fprintf(&b, "%d", uint8(k))
	}
	b.WriteString("].\n")
	fmt.Fprintf(&b, "Definition generated_maxlen : N := %d.\n", sb.MaxDecodeStringLength)
	fmt.Fprintf(&b, "Definition generated_init_step : N := %d.\n", sb.VerifInitDecodeStep())
	fmt.Fprintf(&b, "Definition generated_min_max : list N := [%d; %d; %d; %d].\n", uint8(sb.Min.Kind), uint8(sb.Max.Kind), uint8(sb.NaN.Kind), uint8(sb.Nil.Kind))
	if err := os.WriteFile(filepath.Join(dir, "Consts.v"), []byte(b.String()), 0o644); err != nil {
		panic(err)
	}
}
