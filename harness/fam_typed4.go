package main

import (
	"errors"
	"fmt"
	"math/rand"
	"reflect"
	"strings"

	"github.com/reusee/sb"
)

// ---------------------------------------------------------------------------
// C17: paths
// ---------------------------------------------------------------------------

func coqPathElem(e any) string {
	switch x := e.(type) {
	case int:
		return "(PIdx " + coqZ(int64(x)) + ")"
	case string:
		return "(PStr " + coqStrBytes(x) + ")"
	}
	if e == nil {
		return "(PKey TAny (GAny None))" // a nil interface used as a map key
	}
	v := reflect.ValueOf(e)
	return "(PKey " + coqTy(v.Type()) + " " + coqGval(v) + ")"
}

func coqPath(p sb.Path) string {
	var xs []string
	for _, e := range p {
		xs = append(xs, coqPathElem(e))
	}
	return "[" + strings.Join(xs, "; ") + "]"
}

type tapRec struct {
	path sb.Path
	kind reflect.Kind
}

// reference: the (path, kind) pairs a marshal tap must see, computed from the value alone
// (independent of sb: plain recursion with explicit path copies)
func refMarshalTaps(v reflect.Value, path []any, skipEmpty bool, out *[]tapRec) {
	refTaps(v, path, skipEmpty, false, out)
}

// forUnmarshal: a map key is offered under its parent's path (the key is not known before it is read)
func refTaps(v reflect.Value, path []any, skipEmpty bool, forUnmarshal bool, out *[]tapRec) {
	cp := append(sb.Path{}, path...)
	*out = append(*out, tapRec{cp, v.Kind()})
	if v.Type() == timeType {
		*out = append(*out, tapRec{cp, reflect.String})
		return
	}
	endTap := func() { *out = append(*out, tapRec{cp, reflect.Ptr}) }
	switch v.Kind() {
	case reflect.Ptr, reflect.Interface:
		if !v.IsNil() {
			refTaps(v.Elem(), path, skipEmpty, forUnmarshal, out)
		}
	case reflect.Slice, reflect.Array:
		if v.Type().AssignableTo(bytesTy) || (v.Kind() == reflect.Array && v.Type().Elem() == reflect.TypeOf(byte(0))) {
			return
		}
		for i := 0; i < v.Len(); i++ {
			refTaps(v.Index(i), append(append([]any{}, path...), i), skipEmpty, forUnmarshal, out)
		}
		endTap()
	case reflect.Struct:
		for i := 0; i < v.NumField(); i++ {
			f := v.Type().Field(i)
			if skipEmpty && (v.Field(i).IsZero() || (f.Type.Kind() == reflect.Slice && v.Field(i).Len() == 0)) {
				continue
			}
			if f.PkgPath != "" {
				continue
			}
			p := append(append([]any{}, path...), f.Name)
			*out = append(*out, tapRec{append(sb.Path{}, p...), reflect.String})
			refTaps(v.Field(i), p, skipEmpty, forUnmarshal, out)
		}
		endTap()
	case reflect.Map:
		type ent struct {
			k, x reflect.Value
			ts   []sb.Token
		}
		var es []ent
		it := v.MapRange()
		for it.Next() {
			ts, _ := marshalTokens(it.Key().Interface(), nil)
			es = append(es, ent{it.Key(), it.Value(), ts})
		}
		// ascending key streams
		for i := 1; i < len(es); i++ {
			for j := i; j > 0; j-- {
				c, _ := sb.Compare(tokensFrom(es[j-1].ts), tokensFrom(es[j].ts))
				if c > 0 {
					es[j-1], es[j] = es[j], es[j-1]
				}
			}
		}
		for _, e := range es {
			p := append(append([]any{}, path...), e.k.Interface())
			if forUnmarshal {
				refTaps(e.k, path, skipEmpty, forUnmarshal, out)
			} else {
				refTaps(e.k, p, skipEmpty, forUnmarshal, out)
			}
			refTaps(e.x, p, skipEmpty, forUnmarshal, out)
		}
		endTap()
	case reflect.Func:
		if !v.IsNil() {
			for i, o := range v.Call(nil) {
				refTaps(o, append(append([]any{}, path...), i), skipEmpty, forUnmarshal, out)
			}
		}
		endTap()
	}
}

func samePath(a, b sb.Path) bool {
	if len(a) != len(b) {
		return false
	}
	for i := range a {
		x, y := reflect.ValueOf(a[i]), reflect.ValueOf(b[i])
		if x.Type() != y.Type() || !equivValues(x, y) {
			return false
		}
	}
	return true
}

func typedPaths(dir string, seed int64, tier string, repM *Report, repU *Report) {
	thorough := tier == "thorough"
	wT := newCaseWriter(dir, "taps", "Corr_taps", "taps_case", "check_taps", 120, repM)
	r := newRand(seed, "paths")
	n := 250
	if thorough {
		n = 6000
	}
	for i := 0; i < n; i++ {
		depth := 1 + r.Intn(6)
		t := randPathType(r, depth)
		v := randGoValue(r, t, depth)
		if hasBadMapKey(v) || hasTiedKeys(v) || hasCompositeIfaceKey(v) || usesEmbeddedOrRecursive(t) {
			continue
		}
		tyS, valS := coqTy(t), coqGval(v)
		if len(tyS)+len(valS) > 14000 {
			continue
		}
		desc := fmt.Sprintf("paths: type=%v value=%s", t, truncate(fmt.Sprintf("%+v", safeFormat(v)), 300))
		skipEmpty := i%7 == 6
		var got []tapRec
		err := guard(func() error {
			s := sb.TapMarshal(mkCtx(skipEmpty, false), v.Interface(), func(ctx sb.Ctx, val reflect.Value) {
				got = append(got, tapRec{append(sb.Path{}, ctx.Path...), val.Kind()})
			})
			_, e := collectN(s, 1_000_000)
			return e
		})
		repM.Evaluations++
		repM.count("c17:marshal-taps")
		if err != nil {
			continue
		}
		var want []tapRec
		refMarshalTaps(v, nil, skipEmpty, &want)
		ok := len(got) == len(want)
		for j := 0; ok && j < len(got); j++ {
			if !samePath(got[j].path, want[j].path) || got[j].kind != want[j].kind {
				ok = false
				repM.violate("C17", "marshal-tap-path", fmt.Sprintf("tap %d saw path %v (kind %v), the element's path is %v (kind %v)", j, got[j].path, got[j].kind, want[j].path, want[j].kind), desc)
			}
		}
		if len(got) != len(want) {
			repM.violate("C17", "marshal-tap-count", fmt.Sprintf("%d taps, expected %d", len(got), len(want)), desc)
		}
		var xs []string
		for _, g := range got {
			xs = append(xs, fmt.Sprintf("(%s, %d)", coqPath(g.path), int(g.kind)))
		}
		wT.add(fmt.Sprintf("TapsCase %s %s %s [%s]", coqOpts(skipEmpty, false, false), tyS, valS, strings.Join(xs, "; ")), desc, len(got) > 2)

		// ---- unmarshal taps: every scalar token is offered with the path of the element it fills ----
		ts, e := marshalTokens(v.Interface(), nil)
		if e != nil || hasPtrToNilPtr(v) || hasCompositeIfaceKey(v) {
			continue
		}
		type utap struct {
			path sb.Path
			kind sb.Kind
		}
		var ugot []utap
		target := reflect.New(t)
		eU := guard(func() error {
			return copyBudget(tokensFrom(ts), sb.TapUnmarshal(sb.Ctx{}, target.Interface(), func(ctx sb.Ctx, tok sb.Token, _ reflect.Value) {
				ugot = append(ugot, utap{append(sb.Path{}, ctx.Path...), tok.Kind})
			}))
		})
		repU.Evaluations++
		repU.count("c17:unmarshal-taps")
		if eU != nil {
			continue
		}
		if utapsW != nil {
			utapsCase(utapsW.report, t, ts, false, desc)
			// the stream cut short, and one token replaced by an end marker / a nil / a string, at a random position
			if len(ts) > 1 {
				k := 1 + r.Intn(len(ts)-1)
				utapsCase(utapsW.report, t, ts[:k], false, desc+fmt.Sprintf(" cut at %d", k))
				mut := append([]sb.Token{}, ts...)
				mut[k] = []sb.Token{tokK(sb.KindArrayEnd), tokK(sb.KindNil), tokS("planted"), tokK(sb.KindMapEnd), {Kind: sb.KindLiteral, Value: "12"}, tokK(sb.KindMin)}[r.Intn(6)]
				utapsCase(utapsW.report, t, mut, false, desc+fmt.Sprintf(" token %d replaced by %s", k, descToken(mut[k])))
			}
		}
		// reference: walk the marshal taps; the scalar leaves appear in the same order with the same paths
		var leafPaths []sb.Path
		var uwant []tapRec
		refTaps(v, nil, false, true, &uwant)
		for _, w := range uwant {
			switch w.kind {
			case reflect.Bool, reflect.Int, reflect.Int8, reflect.Int16, reflect.Int32, reflect.Int64,
				reflect.Uint, reflect.Uint8, reflect.Uint16, reflect.Uint32, reflect.Uint64, reflect.Uintptr, reflect.Float32, reflect.Float64:
				leafPaths = append(leafPaths, w.path)
			}
		}
		var gotLeaf []sb.Path
		for _, u := range ugot {
			switch u.kind {
			case sb.KindBool, sb.KindInt, sb.KindInt8, sb.KindInt16, sb.KindInt32, sb.KindInt64, sb.KindUint, sb.KindUint8, sb.KindUint16, sb.KindUint32, sb.KindUint64,
				sb.KindPointer, sb.KindFloat32, sb.KindFloat64, sb.KindNaN:
				gotLeaf = append(gotLeaf, u.path)
			}
		}
		if len(gotLeaf) >= len(leafPaths) {
			// the unmarshaller also taps tokens at intermediate sinks (pointer, interface levels) with the same path:
			// every expected leaf path must occur, in order
			j := 0
			for _, p := range gotLeaf {
				if j < len(leafPaths) && samePath(p, leafPaths[j]) {
					j++
				}
			}
			if j != len(leafPaths) {
				repU.violate("C17", "unmarshal-tap-path", fmt.Sprintf("numeric leaf %d was not offered under its path %v (paths seen: %v)", j, leafPaths[j], truncate(fmt.Sprint(gotLeaf), 300)), desc)
			}
		} else {
			repU.violate("C17", "unmarshal-tap-path", fmt.Sprintf("%d numeric leaves tapped, the value has %d", len(gotLeaf), len(leafPaths)), desc)
		}

		// ---- error paths: a kind mismatch planted at every numeric leaf in turn ----
		leafIdx := -1
		nleaf := 0
		for k, tok := range ts {
			switch tok.Kind {
			case sb.KindInt, sb.KindInt8, sb.KindInt16, sb.KindInt32, sb.KindInt64, sb.KindUint, sb.KindUint8, sb.KindUint16, sb.KindUint32, sb.KindUint64, sb.KindFloat32, sb.KindFloat64, sb.KindBool:
				if r.Intn(nleaf+1) == 0 {
					leafIdx = k
				}
				nleaf++
			}
		}
		if leafIdx >= 0 && len(leafPaths) > 0 {
			bad := append([]sb.Token{}, ts...)
			bad[leafIdx] = sb.Token{Kind: sb.KindString, Value: "planted"}
			if utapsW != nil {
				utapsCase(utapsW.report, t, bad, false, desc+fmt.Sprintf(" planted at token %d", leafIdx))
			}
			var seen []utap
			tgt := reflect.New(t)
			eP := guard(func() error {
				return copyBudget(tokensFrom(bad), sb.TapUnmarshal(sb.Ctx{}, tgt.Interface(), func(ctx sb.Ctx, tok sb.Token, _ reflect.Value) {
					seen = append(seen, utap{append(sb.Path{}, ctx.Path...), tok.Kind})
				}))
			})
			repU.Evaluations++
			if eP != nil && classOf(eP) != "EPanic" {
				var ep sb.Path
				if errors.As(eP, &ep) && len(seen) > 0 {
					// the innermost path attached to the error is the path under which the offending token was offered
					last := seen[len(seen)-1]
					if !samePath(ep, last.path) {
						repU.violate("C17", "error-path", fmt.Sprintf("error carries path %v, the offending token was offered under %v", ep, last.path), desc+fmt.Sprintf(" planted at token %d", leafIdx))
					}
				}
			}
		}
	}
	typedPathsTargeted(repU)
	wT.flush()
}

// paths for targets that already hold elements, and for sb.Tuple targets (explicit expectations)
func typedPathsTargeted(repU *Report) {
	type utap struct {
		path string
		kind sb.Kind
	}
	run := func(target any, ts []sb.Token) ([]utap, error) {
		var got []utap
		err := guard(func() error {
			return copyBudget(tokensFrom(ts), sb.TapUnmarshal(sb.Ctx{}, target, func(ctx sb.Ctx, tok sb.Token, _ reflect.Value) {
				got = append(got, utap{ctx.Path.String(), tok.Kind})
			}))
		})
		return got, err
	}
	leafPaths := func(got []utap, k sb.Kind) []string {
		var out []string
		for _, g := range got {
			if g.kind == k {
				if len(out) == 0 || out[len(out)-1] != g.path {
					out = append(out, g.path)
				}
			}
		}
		return out
	}
	check := func(name string, got []string, want []string, err error) {
		repU.Evaluations++
		repU.count("c17:targeted")
		if err != nil {
			repU.violate("C17", "targeted-path-error", fmt.Sprintf("%s: %v", name, err), name)
			return
		}
		if strings.Join(got, ",") != strings.Join(want, ",") {
			repU.violate("C17", "unmarshal-tap-path", fmt.Sprintf("%s: taps saw paths %v, the elements' paths are %v", name, got, want), name)
		}
	}
	arrOf := func(xs ...int) []sb.Token {
		ts := []sb.Token{tokK(sb.KindArray)}
		for _, x := range xs {
			ts = append(ts, tokI(x))
		}
		return append(ts, tokK(sb.KindArrayEnd))
	}
	// a slice that already holds elements: new elements are appended, their paths continue
	{
		s := []int{1, 2, 3}
		got, err := run(&s, arrOf(30, 40))
		check("append to []int{1,2,3}", leafPaths(got, sb.KindInt), []string{"/3", "/4"}, err)
		type H struct{ Items []int }
		h := H{Items: []int{7, 8}}
		got, err = run(&h, append(append([]sb.Token{tokK(sb.KindObject), tokS("Items")}, arrOf(30, 40, 50)...), tokK(sb.KindObjectEnd)))
		check("append to struct field Items (len 2)", leafPaths(got, sb.KindInt), []string{"/Items/2", "/Items/3", "/Items/4"}, err)
		// error path of a mismatch planted in the appended part
		bad := append(append([]sb.Token{tokK(sb.KindObject), tokS("Items")}, []sb.Token{tokK(sb.KindArray), tokI(1), tokS("x"), tokK(sb.KindArrayEnd)}...), tokK(sb.KindObjectEnd))
		h2 := H{Items: []int{7, 8, 9}}
		_, e := run(&h2, bad)
		var ep sb.Path
		repU.Evaluations++
		if e == nil || !errors.As(e, &ep) || ep.String() != "/Items/4" {
			repU.violate("C17", "error-path", fmt.Sprintf("mismatch at the 2nd appended element of a slice holding 3: error path %q, want /Items/4 (%v)", ep.String(), e), "append error path")
		}
	}
	// sb.Tuple targets, pre-sized with placeholders and empty
	{
		tupStream := []sb.Token{tokK(sb.KindTuple), tokI(1), tokI(2), tokI(3), tokK(sb.KindTupleEnd)}
		t1 := sb.Tuple{0, 0, 0}
		got, err := run(&t1, tupStream)
		check("sb.Tuple{0,0,0}", leafPaths(got, sb.KindInt), []string{"/0", "/1", "/2"}, err)
		var t2 sb.Tuple
		got, err = run(&t2, tupStream)
		check("empty sb.Tuple", leafPaths(got, sb.KindInt), []string{"/0", "/1", "/2"}, err)
		t3 := sb.Tuple{0}
		got, err = run(&t3, tupStream)
		check("sb.Tuple{0} (one placeholder, two appended)", leafPaths(got, sb.KindInt), []string{"/0", "/1", "/2"}, err)
		type W struct{ Tup sb.Tuple }
		w := W{Tup: sb.Tuple{0, 0, 0}}
		got, err = run(&w, append(append([]sb.Token{tokK(sb.KindObject), tokS("Tup")}, tupStream...), tokK(sb.KindObjectEnd)))
		check("struct field sb.Tuple{0,0,0}", leafPaths(got, sb.KindInt), []string{"/Tup/0", "/Tup/1", "/Tup/2"}, err)
		bad := []sb.Token{tokK(sb.KindTuple), tokI(1), tokS("x"), tokK(sb.KindTupleEnd)}
		t4 := sb.Tuple{0, 0}
		_, e := run(&t4, bad)
		var ep sb.Path
		repU.Evaluations++
		if e == nil || !errors.As(e, &ep) || ep.String() != "/1" {
			repU.violate("C17", "error-path", fmt.Sprintf("mismatch at item 1 of an sb.Tuple: error path %q, want /1 (%v)", ep.String(), e), "tuple error path")
		}
		// typed tuple
		tt := sb.TypedTuple{Types: []reflect.Type{reflect.TypeOf(0), reflect.TypeOf(0), reflect.TypeOf(0)}}
		got, err = run(&tt, tupStream)
		check("sb.TypedTuple", leafPaths(got, sb.KindInt), []string{"/0", "/1", "/2"}, err)
		// arrays: elements in place
		a := [3]int{}
		got, err = run(&a, arrOf(1, 2, 3))
		check("[3]int", leafPaths(got, sb.KindInt), []string{"/0", "/1", "/2"}, err)
		// maps: values under their keys
		m := map[string]int{"old": 1}
		got, err = run(&m, []sb.Token{tokK(sb.KindMap), tokS("a"), tokI(1), tokS("b"), tokI(2), tokK(sb.KindMapEnd)})
		check("map[string]int", leafPaths(got, sb.KindInt), []string{"/a", "/b"}, err)
	}
	// a literal token (what the JSON source emits for every number) that cannot be converted: the error
	// carries the path of the element, exactly as a kind mismatch does
	{
		type In struct {
			Small []int8
			U     uint
		}
		type Doc struct {
			Inner In
			List  []In
			P     *In
		}
		lit := func(s string) sb.Token { return sb.Token{Kind: sb.KindLiteral, Value: s} }
		obj := func(fields ...sb.Token) []sb.Token {
			return append(append([]sb.Token{tokK(sb.KindObject)}, fields...), tokK(sb.KindObjectEnd))
		}
		cat := func(parts ...[]sb.Token) []sb.Token {
			var out []sb.Token
			for _, p := range parts {
				out = append(out, p...)
			}
			return out
		}
		arr := func(items ...sb.Token) []sb.Token {
			return append(append([]sb.Token{tokK(sb.KindArray)}, items...), tokK(sb.KindArrayEnd))
		}
		cases := []struct {
			ts   []sb.Token
			want string
		}{
			{obj(cat([]sb.Token{tokS("Inner")}, obj(cat([]sb.Token{tokS("Small")}, arr(lit("1"), lit("2"), lit("300")))...))...), "/Inner/Small/2"},
			{obj(cat([]sb.Token{tokS("Inner")}, obj(tokS("U"), lit("-1")))...), "/Inner/U"},
			{obj(cat([]sb.Token{tokS("List")}, arr(cat(obj(tokS("U"), lit("1")), obj(cat([]sb.Token{tokS("Small")}, arr(lit("1"), lit("1.5")))...))...))...), "/List/1/Small/1"},
			{obj(cat([]sb.Token{tokS("P")}, obj(tokS("U"), lit("1e3")))...), "/P/U"},
			{obj(tokS("Inner"), lit("5")), "/Inner"},
			{obj(cat([]sb.Token{tokS("Inner")}, obj(cat([]sb.Token{tokS("Small")}, arr(lit("1"), tokS("x")))...))...), "/Inner/Small/1"},
		}
		for _, c := range cases {
			var d Doc
			_, e := run(&d, c.ts)
			var ep sb.Path
			repU.Evaluations++
			repU.count("c17:literal-error-path")
			has := e != nil && errors.As(e, &ep)
			if e == nil || !has || ep.String() != c.want {
				repU.violate("C17", "error-path", fmt.Sprintf("literal that cannot be converted at %s: error path %q (path present: %v), error %v", c.want, ep.String(), has, e), "literal error path: "+descTokens(c.ts))
			}
		}
	}
	// error paths are snapshots: errors kept from several runs that share a base context (whose path has
	// spare capacity) still name their own element afterwards
	{
		base := sb.DefaultCtx.WithPath("doc").WithPath("body").WithPath("items")
		var errs []error
		docs := [][]sb.Token{
			{tokK(sb.KindArray), tokS("bad"), tokI(2), tokI(3), tokK(sb.KindArrayEnd)},
			{tokK(sb.KindArray), tokI(1), tokS("bad"), tokI(3), tokK(sb.KindArrayEnd)},
			{tokK(sb.KindArray), tokI(1), tokI(2), tokS("bad"), tokK(sb.KindArrayEnd)},
		}
		for _, doc := range docs {
			var target []int
			errs = append(errs, guard(func() error {
				return copyBudget(tokensFrom(doc), sb.UnmarshalValue(base, reflect.ValueOf(&target), nil))
			}))
		}
		for i, e := range errs {
			var ep sb.Path
			repU.Evaluations++
			want := fmt.Sprintf("/doc/body/items/%d", i)
			if e == nil || !errors.As(e, &ep) || ep.String() != want {
				repU.violate("C17", "error-path", fmt.Sprintf("errors kept from 3 runs sharing a base context: error %d carries path %q, want %s", i, ep.String(), want), "shared base context, unmarshal")
			}
		}
		// marshal side: a failing marshaller at index i
		errs = errs[:0]
		for i := 0; i < 3; i++ {
			doc := []any{1, 2, 3}
			doc[i] = failingText{}
			errs = append(errs, guard(func() error { return sb.Copy(sb.MarshalCtx(base, doc), sb.Discard) }))
		}
		for i, e := range errs {
			var ep sb.Path
			repU.Evaluations++
			want := fmt.Sprintf("/doc/body/items/%d", i)
			if e == nil || !errors.As(e, &ep) || ep.String() != want {
				repU.violate("C17", "error-path", fmt.Sprintf("marshal errors kept from 3 runs sharing a base context: error %d carries path %q, want %s", i, ep.String(), want), "shared base context, marshal")
			}
		}
	}
}

type failingText struct{}

func (failingText) MarshalText() ([]byte, error) { return nil, fmt.Errorf("verif: cannot marshal") }

// types for path cases: deeper and wider than the general grammar, few maps with exotic keys
func randPathType(r *rand.Rand, depth int) reflect.Type {
	c := r.Intn(12)
	if depth <= 0 || c < 2 {
		return scalarTypes[r.Intn(len(scalarTypes))]
	}
	switch c {
	case 2, 3, 4:
		return reflect.SliceOf(randPathType(r, depth-1))
	case 5:
		return reflect.ArrayOf(r.Intn(5), randPathType(r, depth-1))
	case 6, 7:
		kts := []reflect.Type{reflect.TypeOf(""), reflect.TypeOf(0), reflect.TypeOf(int8(0)), reflect.TypeOf(MyString("")), reflect.TypeOf([2]byte{})}
		return reflect.MapOf(kts[r.Intn(len(kts))], randPathType(r, depth-1))
	case 8, 9:
		n := 1 + r.Intn(8)
		var fs []reflect.StructField
		for i := 0; i < n; i++ {
			fs = append(fs, reflect.StructField{Name: fmt.Sprintf("F%d", i), Type: randPathType(r, depth-1)})
		}
		return reflect.StructOf(fs)
	case 10:
		return reflect.PtrTo(randPathType(r, depth-1))
	default:
		return reflect.FuncOf(nil, []reflect.Type{randPathType(r, depth-1), randPathType(r, depth-1)}, false)
	}
}

// ---------------------------------------------------------------------------
// C16: schema evolution
// ---------------------------------------------------------------------------

func typedEvolution(dir string, seed int64, tier string, repM, repU *Report, wM, wU *CaseWriter) {
	thorough := tier == "thorough"
	r := newRand(seed, "evolution")
	reg := coqRegistry()
	n := 300
	if thorough {
		n = 8000
	}
	for i := 0; i < n; i++ {
		// writer struct type
		nf := 1 + r.Intn(6)
		var wfs []reflect.StructField
		for j := 0; j < nf; j++ {
			wfs = append(wfs, reflect.StructField{Name: fmt.Sprintf("F%d", j), Type: randType(r, 2)})
		}
		wt := reflect.StructOf(wfs)
		// reader: drop, add, rename, permute
		rfs := append([]reflect.StructField{}, wfs...)
		for k, m := 0, r.Intn(3); k < m && len(rfs) > 0; k++ {
			j := r.Intn(len(rfs))
			rfs = append(rfs[:j:j], rfs[j+1:]...)
		}
		for k, m := 0, r.Intn(3); k < m; k++ {
			rfs = append(rfs, reflect.StructField{Name: fmt.Sprintf("N%d", k), Type: randType(r, 1)})
		}
		if len(rfs) > 0 && r.Intn(3) == 0 {
			rfs[r.Intn(len(rfs))].Name = fmt.Sprintf("R%d", r.Intn(9))
		}
		r.Shuffle(len(rfs), func(a, b int) { rfs[a], rfs[b] = rfs[b], rfs[a] })
		rt := reflect.StructOf(dedupFields(rfs))
		if usesEmbeddedOrRecursive(wt) || usesEmbeddedOrRecursive(rt) {
			continue
		}
		v := randGoValue(r, wt, 2)
		if hasBadMapKey(v) || hasTiedKeys(v) || hasPtrToNilPtr(v) || hasCompositeIfaceKey(v) {
			continue
		}
		skipEmpty := i%3 == 1
		strict := i%4 == 3
		mctx := mkCtx(skipEmpty, false)
		ts, err := marshalTokens(v.Interface(), &mctx)
		if err != nil || len(ts) > 400 {
			continue
		}
		desc := fmt.Sprintf("evolution: writer=%v reader=%v skipEmpty=%v strict=%v value=%s", wt, rt, skipEmpty, strict, truncate(fmt.Sprintf("%+v", safeFormat(v)), 200))
		uctx := mkCtx(false, strict)
		back, eU := unmarshalInto(rt, ts, &uctx)
		repU.Evaluations++
		repU.count("c16:evolution")
		// which writer fields does the reader lack (and are actually in the stream)?
		unknown := false
		for j := 0; j < wt.NumField(); j++ {
			f := wt.Field(j)
			if _, ok := rt.FieldByName(f.Name); !ok {
				if !(skipEmpty && (v.Field(j).IsZero() || (f.Type.Kind() == reflect.Slice && v.Field(j).Len() == 0))) {
					unknown = true
				}
			}
		}
		switch {
		case classOf(eU) == "EPanic":
			repU.violate("C16", "evolution-panic", fmt.Sprintf("%v", eU), desc)
		case strict && unknown:
			if classOf(eU) != "EUnknownField" {
				repU.violate("C16", "strict-unknown-accepted", fmt.Sprintf("strict mode, unknown field in the stream, result: %v", eU), desc)
			}
		case eU != nil:
			repU.violate("C16", "unknown-field-not-skipped", fmt.Sprintf("reading data written by another version of the struct failed: %v", eU), desc)
		default:
			// reference: assignment by name
			for j := 0; j < rt.NumField(); j++ {
				rf := rt.Field(j)
				wf, ok := wt.FieldByName(rf.Name)
				var want reflect.Value
				if ok && wf.Type == rf.Type {
					want = v.FieldByName(rf.Name)
				} else {
					want = reflect.Zero(rf.Type)
				}
				if !equivValues(want, back.Field(j)) {
					repU.violate("C16", "assign-by-name", fmt.Sprintf("reader field %s = %s, expected %s", rf.Name, truncate(fmt.Sprint(safeFormat(back.Field(j))), 100), truncate(fmt.Sprint(safeFormat(want)), 100)), desc)
					break
				}
			}
		}
		rtS := coqTy(rt)
		wU.add(fmt.Sprintf("UnmarshalCase %s %s %s %s %s %s %s", coqOpts(false, strict, false), reg, rtS, "(zero "+rtS+")", coqTokens(ts), floatTable(ts), uobs(back, eU)), desc, true)

		// skip-empty: exactly the zero-valued fields and empty slices are omitted, and the stream round-trips
		if skipEmpty {
			full, _ := marshalTokens(v.Interface(), nil)
			fv, _ := parseGo(full)
			sv, rest := parseGo(ts)
			if fv == nil || sv == nil || len(rest) != 0 {
				repM.violate("C16", "skip-empty-stream", "the skip-empty stream is not a single value", desc)
			} else {
				var wantNames []string
				for j := 0; j < wt.NumField(); j++ {
					f := wt.Field(j)
					fvj := v.Field(j)
					if refIsZero(fvj) || (f.Type.Kind() == reflect.Slice && fvj.Len() == 0) {
						continue
					}
					wantNames = append(wantNames, f.Name)
				}
				var gotNames []string
				for j := 0; j+1 < len(sv.items); j += 2 {
					gotNames = append(gotNames, sv.items[j].leaf.Value.(string))
				}
				if strings.Join(gotNames, ",") != strings.Join(wantNames, ",") {
					repM.violate("C16", "skip-empty-fields", fmt.Sprintf("fields emitted %v, the non-zero non-empty fields are %v", gotNames, wantNames), desc)
				}
			}
			back2, e2 := unmarshalInto(wt, ts, nil)
			if e2 != nil || !equivValues(v, back2) {
				repM.violate("C16", "skip-empty-roundtrip", fmt.Sprintf("the shortened stream does not round-trip (%v)", e2), desc)
			}
			wM.add(fmt.Sprintf("MarshalCase %s %s %s %s", coqOpts(true, false, false), coqTy(wt), coqGval(v), mobs(ts, nil)), desc, true)
		}
	}
	// strict mode and deprecated-field declarations
	dt := reflect.TypeOf(WithDeprecated{})
	for _, name := range []string{"Old", "Gone", "Other", "Keep", "keep", ""} {
		for _, val := range [][]sb.Token{{tokI(5)}, {tokK(sb.KindArray), tokI(1), tokK(sb.KindArrayEnd)}, {tokK(sb.KindNil)}, {tokK(sb.KindObject), tokS("A"), tokI(1), tokK(sb.KindObjectEnd)}} {
			ts := append(append([]sb.Token{tokK(sb.KindObject), tokS("Name"), tokS("n"), tokS(name)}, val...), tokK(sb.KindObjectEnd))
			for _, strict := range []bool{false, true} {
				uctx := mkCtx(false, strict)
				back, eU := unmarshalInto(dt, ts, &uctx)
				repU.Evaluations++
				desc := fmt.Sprintf("deprecated: strict=%v field=%q stream=[%s]", strict, name, descTokens(ts))
				known := name == "Keep"
				depr := name == "Old" || name == "Gone"
				switch {
				case classOf(eU) == "EPanic":
					repU.violate("C16", "evolution-panic", fmt.Sprintf("%v", eU), desc)
				case strict && !known && !depr:
					if classOf(eU) != "EUnknownField" {
						repU.violate("C16", "strict-unknown-accepted", fmt.Sprintf("strict mode, unknown field %q: %v", name, eU), desc)
					}
				case known && val[0].Kind != sb.KindInt && val[0].Kind != sb.KindNil:
					// a known field with a value of the wrong shape is a mismatch: fine either way
				case eU != nil:
					repU.violate("C16", "deprecated-or-unknown-not-skipped", fmt.Sprintf("field %q should be skipped: %v", name, eU), desc)
				}
				dtS := coqTy(dt)
				wU.add(fmt.Sprintf("UnmarshalCase %s %s %s %s %s [] %s", coqOpts(false, strict, false), coqRegistry(), dtS, "(zero "+dtS+")", coqTokens(ts), uobs(back, eU)), desc, true)
			}
		}
	}
}

// reference notion of "zero-valued" written from the property text (== zero of the type)
func refIsZero(v reflect.Value) bool {
	return reflect.DeepEqual(accessible(v).Interface(), reflect.Zero(v.Type()).Interface()) || v.IsZero()
}

var _ = rand.Int
