package main

import (
	"bytes"
	"fmt"
	"math/rand"
	"sort"
	"strings"
	"time"

	"github.com/reusee/sb"
)

// ---------------------------------------------------------------------------
// predicates
// ---------------------------------------------------------------------------

type predSpec struct {
	kind  string // true false kindin not kindlt
	kinds []sb.Kind
	k     sb.Kind
	sub   *predSpec
}

func (p *predSpec) eval(t *sb.Token) bool {
	switch p.kind {
	case "true":
		return true
	case "false":
		return false
	case "kindin":
		for _, k := range p.kinds {
			if k == t.Kind {
				return true
			}
		}
		return false
	case "not":
		return !p.sub.eval(t)
	case "kindlt":
		return t.Kind < p.k
	}
	panic("pred")
}

func (p *predSpec) coq() string {
	switch p.kind {
	case "true":
		return "PTrue"
	case "false":
		return "PFalse"
	case "kindin":
		var xs []string
		for _, k := range p.kinds {
			xs = append(xs, fmt.Sprintf("%d", k))
		}
		return "(PKindIn [" + strings.Join(xs, "; ") + "])"
	case "not":
		return "(PNot " + p.sub.coq() + ")"
	case "kindlt":
		return fmt.Sprintf("(PKindLt %d)", p.k)
	}
	panic("pred")
}

func randPred(r *rand.Rand) *predSpec {
	switch r.Intn(6) {
	case 0:
		return &predSpec{kind: "true"}
	case 1:
		return &predSpec{kind: "false"}
	case 2:
		return &predSpec{kind: "kindlt", k: sb.Kind(r.Intn(256))}
	case 3:
		return &predSpec{kind: "not", sub: randPred(r)}
	default:
		n := 1 + r.Intn(5)
		p := &predSpec{kind: "kindin"}
		all := []sb.Kind{sb.KindInt, sb.KindString, sb.KindArray, sb.KindArrayEnd, sb.KindBool, sb.KindNil, sb.KindObject, sb.KindObjectEnd, sb.KindBytes, sb.KindFloat64, sb.KindTypeName, sb.KindUint8}
		for i := 0; i < n; i++ {
			p.kinds = append(p.kinds, all[r.Intn(len(all))])
		}
		return p
	}
}

// ---------------------------------------------------------------------------
// sink specs
// ---------------------------------------------------------------------------

type recorder struct {
	logs map[int][]*sb.Token // nil entry = end-of-stream signal
	cv   map[int]*sb.Tokens  // CollectValueTokens targets
}

func newRecorder() *recorder {
	return &recorder{logs: map[int][]*sb.Token{}, cv: map[int]*sb.Tokens{}}
}

func (rc *recorder) record(id int, t *sb.Token) {
	if t.Invalid() {
		rc.logs[id] = append(rc.logs[id], nil)
	} else {
		c := *t
		rc.logs[id] = append(rc.logs[id], &c)
	}
}

type sinkSpec struct {
	kind string // nil rec fail concat filter alt collectvalue discard
	id   int
	k    int // Fin k (0 = ToEnd) for rec; failing call index for fail
	subs []*sinkSpec
	pred *predSpec
}

func (s *sinkSpec) build(rc *recorder) sb.Sink {
	switch s.kind {
	case "nil":
		return nil
	case "discard":
		return sb.Discard
	case "rec":
		n := 0
		var sink sb.Sink
		sink = func(t *sb.Token) (sb.Sink, error) {
			rc.record(s.id, t)
			if t.Invalid() {
				return nil, nil
			}
			n++
			if s.k > 0 && n >= s.k {
				return nil, nil
			}
			return sink, nil
		}
		if _, ok := rc.logs[s.id]; !ok {
			rc.logs[s.id] = nil
		}
		return sink
	case "fail":
		n := 0
		var sink sb.Sink
		sink = func(t *sb.Token) (sb.Sink, error) {
			rc.record(s.id, t)
			n++
			if n >= s.k {
				if s.id%2 == 0 {
					return sink, errInjected // a fault reported together with a continuation: the error still ends the run
				}
				return nil, errInjected
			}
			if t.Invalid() {
				return nil, nil
			}
			return sink, nil
		}
		if _, ok := rc.logs[s.id]; !ok {
			rc.logs[s.id] = nil
		}
		return sink
	case "concat":
		var subs []sb.Sink
		for _, x := range s.subs {
			subs = append(subs, x.build(rc))
		}
		return sb.ConcatSinks(subs...)
	case "filter":
		return sb.FilterSink(s.subs[0].build(rc), s.pred.eval)
	case "alt":
		var subs []sb.Sink
		for _, x := range s.subs {
			subs = append(subs, x.build(rc))
		}
		return sb.AltSink(subs...)
	case "collectvalue":
		ts := new(sb.Tokens)
		rc.cv[s.id] = ts
		return sb.CollectValueTokens(ts)
	}
	panic("sink kind " + s.kind)
}

// does building this spec give a nil Sink?
func (s *sinkSpec) nilAtBuild() bool {
	switch s.kind {
	case "nil":
		return true
	case "concat":
		for _, x := range s.subs {
			if !x.nilAtBuild() {
				return false
			}
		}
		return true
	}
	return false
}

func (s *sinkSpec) coq() string {
	switch s.kind {
	case "nil":
		return "SNil"
	case "discard":
		return "SDiscard"
	case "rec":
		if s.k == 0 {
			return fmt.Sprintf("(SRec %d%%nat ToEnd)", s.id)
		}
		return fmt.Sprintf("(SRec %d%%nat (Fin %d%%nat))", s.id, s.k)
	case "fail":
		return fmt.Sprintf("(SFail %d%%nat %d%%nat)", s.id, s.k)
	case "concat":
		return "(mk_concat " + coqSinks(s.subs) + ")"
	case "filter":
		return "(SFilter " + s.subs[0].coq() + " " + s.pred.coq() + ")"
	case "alt":
		return "(SAlt " + coqSinks(s.subs) + ")"
	case "collectvalue":
		return fmt.Sprintf("(SCollectValue %d%%nat [])", s.id)
	}
	panic("sink kind")
}

func coqSinks(ss []*sinkSpec) string {
	var xs []string
	for _, s := range ss {
		xs = append(xs, s.coq())
	}
	return "[" + strings.Join(xs, "; ") + "]"
}

type idGen struct{ n int }

func (g *idGen) next() int { g.n++; return g.n }

func randLeafSink(r *rand.Rand, g *idGen, allowFail bool, n int) *sinkSpec {
	c := r.Intn(12)
	switch {
	case c == 0:
		return &sinkSpec{kind: "discard"}
	case c == 1 && allowFail:
		return &sinkSpec{kind: "fail", id: g.next(), k: 1 + r.Intn(n+2)}
	case c == 2:
		return &sinkSpec{kind: "collectvalue", id: g.next()}
	case c <= 5:
		return &sinkSpec{kind: "rec", id: g.next(), k: 0}
	default:
		return &sinkSpec{kind: "rec", id: g.next(), k: 1 + r.Intn(n+2)}
	}
}

func randSink(r *rand.Rand, g *idGen, depth int, allowFail bool, allowNil bool, n int) *sinkSpec {
	c := r.Intn(10)
	if depth <= 0 || c < 5 {
		if allowNil && r.Intn(8) == 0 {
			return &sinkSpec{kind: "nil"}
		}
		return randLeafSink(r, g, allowFail, n)
	}
	switch c {
	case 5, 6:
		s := &sinkSpec{kind: "concat"}
		for i, m := 0, r.Intn(4); i < m; i++ {
			s.subs = append(s.subs, randSink(r, g, depth-1, allowFail, true, n))
		}
		return s
	case 7:
		return &sinkSpec{kind: "filter", subs: []*sinkSpec{randSink(r, g, depth-1, allowFail, true, n)}, pred: randPred(r)}
	default:
		s := &sinkSpec{kind: "alt"}
		for i, m := 0, r.Intn(4); i < m; i++ {
			a := randSink(r, g, depth-1, true, false, n)
			if a.nilAtBuild() { // AltSink calls its alternatives directly: a nil alternative is a caller error
				a = randLeafSink(r, g, true, n)
			}
			s.subs = append(s.subs, a)
		}
		return s
	}
}

// ---------------------------------------------------------------------------
// proc specs
// ---------------------------------------------------------------------------

type procSpec struct {
	kind   string // nil tokens fail iterstream tee concat filter deref decode
	ts     []sb.Token
	subs   []*procSpec // source(s)
	cont   *procSpec
	sinks  []*sinkSpec
	pred   *predSpec
	table  []refEntry
	data   []byte
	fault  bool
	maxlen uint64
}

type refEntry struct {
	h    []byte
	mode string // stream decline fail
	sub  []sb.Token
}

func (p *procSpec) build(rc *recorder) sb.Proc {
	if p == nil {
		return nil
	}
	switch p.kind {
	case "nil":
		return nil
	case "tokens":
		return sb.IterTokens(sb.Tokens(p.ts), 0, p.cont.build(rc))
	case "fail":
		return func(*sb.Token) (sb.Proc, error) { return nil, errInjected }
	case "iterstream":
		s := p.subs[0].build(rc)
		return sb.IterStream(&s, p.cont.build(rc))
	case "tee":
		s := p.subs[0].build(rc)
		var sinks []sb.Sink
		for _, x := range p.sinks {
			sinks = append(sinks, x.build(rc))
		}
		return sb.TeeProc(&s, sinks, p.cont.build(rc))
	case "concat":
		var ss []sb.Stream
		for _, x := range p.subs {
			if x.kind == "nil" {
				ss = append(ss, nil)
				continue
			}
			s := x.build(rc)
			ss = append(ss, &s)
		}
		st := sb.ConcatStreams(ss...)
		if st == nil {
			return nil
		}
		return *st
	case "filter":
		s := p.subs[0].build(rc)
		return *sb.FilterProc(&s, p.pred.eval)
	case "deref":
		s := p.subs[0].build(rc)
		return *sb.Deref(&s, func(h []byte) (sb.Stream, error) {
			for _, e := range p.table {
				if bytes.Equal(e.h, h) {
					switch e.mode {
					case "fail":
						return nil, errInjected
					case "decline":
						return nil, nil
					default:
						return sb.Tokens(e.sub).Iter(), nil
					}
				}
			}
			return nil, nil
		})
	case "decode":
		rd, _ := mkReader(0, p.data, p.fault, nil)
		return sb.DecodeBuffer(rd, nil, make([]byte, 8), p.cont.build(rc))
	}
	panic("proc kind " + p.kind)
}

func (p *procSpec) coq() string {
	if p == nil {
		return "PNil"
	}
	switch p.kind {
	case "nil":
		return "PNil"
	case "tokens":
		return "(PTokens " + coqTokens(p.ts) + " " + p.cont.coq() + ")"
	case "fail":
		return "(PFail EFault)"
	case "iterstream":
		return "(PIterStream " + p.subs[0].coq() + " " + p.cont.coq() + ")"
	case "tee":
		return "(PTee " + p.subs[0].coq() + " " + coqSinks(p.sinks) + " " + p.cont.coq() + ")"
	case "concat":
		var xs []string
		for _, s := range p.subs {
			xs = append(xs, s.coq())
		}
		return "(mk_pconcat [" + strings.Join(xs, "; ") + "])"
	case "filter":
		return "(PFilter " + p.subs[0].coq() + " " + p.pred.coq() + " PNil)"
	case "deref":
		var xs []string
		for _, e := range p.table {
			r := "RDecline"
			switch e.mode {
			case "fail":
				r = "RFail"
			case "stream":
				r = "(RStream " + coqTokens(e.sub) + ")"
			}
			xs = append(xs, "("+coqBytes(e.h)+", "+r+")")
		}
		return "(PDeref " + p.subs[0].coq() + " [" + strings.Join(xs, "; ") + "] PNil)"
	case "decode":
		return fmt.Sprintf("(PDecode %d %s %s 0 %s)", p.maxlen, coqBool(p.fault), coqBytes(p.data), p.cont.coq())
	}
	panic("proc kind")
}

// the denotation of a proc spec, written independently of sb (the Go-side reference for C13/C15)
func (p *procSpec) den() (ts []sb.Token, failed bool) {
	if p == nil {
		return nil, false
	}
	app := func(a []sb.Token, q *procSpec) ([]sb.Token, bool) {
		b, f := q.den()
		return append(append([]sb.Token{}, a...), b...), f
	}
	switch p.kind {
	case "nil":
		return nil, false
	case "tokens":
		return app(p.ts, p.cont)
	case "fail":
		return nil, true
	case "iterstream", "tee":
		a, f := p.subs[0].den()
		if f {
			return a, true
		}
		return app(a, p.cont)
	case "concat":
		var out []sb.Token
		for _, s := range p.subs {
			a, f := s.den()
			out = append(out, a...)
			if f {
				return out, true
			}
		}
		return out, false
	case "filter":
		a, f := p.subs[0].den()
		var out []sb.Token
		for i := range a {
			if p.pred.eval(&a[i]) {
				out = append(out, a[i])
			}
		}
		return out, f
	case "deref":
		a, f := p.subs[0].den()
		var out []sb.Token
		for _, t := range a {
			if t.Kind == sb.KindRef {
				var hit *refEntry
				for i := range p.table {
					if bytes.Equal(p.table[i].h, t.Value.([]byte)) {
						hit = &p.table[i]
						break
					}
				}
				if hit != nil && hit.mode == "fail" {
					return out, true
				}
				if hit != nil && hit.mode == "stream" {
					out = append(out, hit.sub...)
					continue
				}
			}
			out = append(out, t)
		}
		return out, f
	case "decode":
		return nil, false // not used by the reference
	}
	panic("den")
}

func (p *procSpec) hasKind(k string) bool {
	if p == nil {
		return false
	}
	if p.kind == k {
		return true
	}
	for _, s := range p.subs {
		if s.hasKind(k) {
			return true
		}
	}
	return p.cont.hasKind(k)
}

func smallTokens(r *rand.Rand, maxn int) []sb.Token {
	n := r.Intn(maxn + 1)
	ts := make([]sb.Token, 0, n)
	for i := 0; i < n; i++ {
		switch r.Intn(8) {
		case 0:
			ts = append(ts, sb.Token{Kind: sb.KindInt, Value: r.Intn(100)})
		case 1:
			ts = append(ts, sb.Token{Kind: sb.KindString, Value: string(payload(r, r.Intn(4)))})
		case 2:
			ts = append(ts, sb.Token{Kind: sb.KindArray})
		case 3:
			ts = append(ts, sb.Token{Kind: sb.KindArrayEnd})
		case 4:
			ts = append(ts, sb.Token{Kind: sb.KindRef, Value: []byte{byte('a' + r.Intn(3))}})
		case 5:
			ts = append(ts, sb.Token{Kind: sb.KindTypeName, Value: "t"})
		default:
			t := randLeafToken(r, false)
			ts = append(ts, t)
		}
	}
	return ts
}

func randProc(r *rand.Rand, g *idGen, depth int, allowFail bool) *procSpec {
	c := r.Intn(12)
	if depth <= 0 || c < 3 {
		if allowFail && r.Intn(6) == 0 {
			return &procSpec{kind: "tokens", ts: smallTokens(r, 4), cont: &procSpec{kind: "fail"}}
		}
		var cont *procSpec
		if r.Intn(3) == 0 {
			cont = randProc(r, g, depth-1, allowFail)
		}
		return &procSpec{kind: "tokens", ts: smallTokens(r, 6), cont: cont}
	}
	src := func() *procSpec { return randProc(r, g, depth-1, allowFail) }
	cont := func() *procSpec {
		if r.Intn(2) == 0 {
			return nil
		}
		return randProc(r, g, depth-1, allowFail)
	}
	switch c {
	case 3, 4:
		return &procSpec{kind: "iterstream", subs: []*procSpec{src()}, cont: cont()}
	case 5, 6:
		p := &procSpec{kind: "tee", subs: []*procSpec{src()}, cont: cont()}
		for i, m := 0, r.Intn(3); i < m; i++ {
			a := randSink(r, g, 1, allowFail, false, 6)
			if a.nilAtBuild() { // Tee calls its side sinks directly: nil side sinks are a caller error
				a = randLeafSink(r, g, allowFail, 6)
			}
			p.sinks = append(p.sinks, a)
		}
		return p
	case 7, 8:
		p := &procSpec{kind: "concat"}
		for i, m := 0, r.Intn(4); i < m; i++ {
			if r.Intn(5) == 0 {
				p.subs = append(p.subs, &procSpec{kind: "nil"})
			} else {
				p.subs = append(p.subs, src())
			}
		}
		return p
	case 9:
		return &procSpec{kind: "filter", subs: []*procSpec{src()}, pred: randPred(r)}
	case 10:
		p := &procSpec{kind: "deref", subs: []*procSpec{src()}}
		for _, h := range []string{"a", "b", "c"} {
			modes := []string{"stream", "stream", "decline", "fail"}
			m := modes[r.Intn(len(modes))]
			if m == "fail" && !allowFail {
				m = "decline"
			}
			p.table = append(p.table, refEntry{h: []byte(h), mode: m, sub: smallTokens(r, 3)})
		}
		return p
	default:
		ts := randTokens(r, 4)
		enc := runEncode(ts, 0, 0).bytes
		if len(enc) > 200 {
			enc = enc[:200]
		}
		fault := false
		if allowFail && r.Intn(3) == 0 {
			enc = enc[:r.Intn(len(enc)+1)]
			fault = true
		}
		return &procSpec{kind: "decode", data: enc, fault: fault, maxlen: sb.MaxDecodeStringLength, cont: cont()}
	}
}

func coqLogs(rc *recorder) string {
	var ids []int
	for id := range rc.logs {
		ids = append(ids, id)
	}
	for id := range rc.cv {
		ids = append(ids, id)
	}
	sort.Ints(ids)
	var xs []string
	for _, id := range ids {
		var items []string
		if ts, ok := rc.cv[id]; ok {
			for _, t := range *ts {
				items = append(items, "Some ("+coqToken(t)+")")
			}
		} else {
			for _, t := range rc.logs[id] {
				if t == nil {
					items = append(items, "None")
				} else {
					items = append(items, "Some ("+coqToken(*t)+")")
				}
			}
		}
		xs = append(xs, fmt.Sprintf("(%d%%nat, [%s])", id, strings.Join(items, "; ")))
	}
	return "[" + strings.Join(xs, "; ") + "]"
}

// ---------------------------------------------------------------------------
// the streams family: copy cases (C14, C15) and proc cases (C13, C15)
// ---------------------------------------------------------------------------

// reference interpreter of the sink protocol for plain recording sinks attached directly to Copy:
// a sink with lifetime Fin k sees the first min(k, n) tokens, plus one EOS iff n < k; ToEnd sees all + one EOS
func expectedLog(ts []sb.Token, k int) []*sb.Token {
	var out []*sb.Token
	for i := range ts {
		if k > 0 && i >= k {
			return out
		}
		out = append(out, &ts[i])
	}
	if k == 0 || len(ts) < k {
		out = append(out, nil)
	}
	return out
}

func sameLog(a, b []*sb.Token) bool {
	if len(a) != len(b) {
		return false
	}
	for i := range a {
		if (a[i] == nil) != (b[i] == nil) {
			return false
		}
		if a[i] != nil && !tokenExactEq(*a[i], *b[i]) {
			return false
		}
	}
	return true
}

func descLog(a []*sb.Token) string {
	var xs []string
	for _, t := range a {
		if t == nil {
			xs = append(xs, "EOS")
		} else {
			xs = append(xs, descToken(*t))
		}
	}
	return strings.Join(xs, " ")
}

var copyLeaked int

func famStreams(dir string, seed int64, tier string) {
	thorough := tier == "thorough"
	repC := newReport("copy", seed, tier)
	repC.Rule = "delivery histories: token streams (n<=40) x sets of 0..5 sinks (recording sinks with lifetimes Fin k / ToEnd, nil sinks, failing sinks, nested in ConcatSinks/FilterSink/AltSink, CollectValueTokens, Discard) attached to Copy, exhaustive over lifetimes for n<=4 and <=3 plain sinks; sources failing at every token index; non-trivial = at least one sink and one token"
	repP := newReport("proc", seed, tier)
	repP.Rule = "stream combinator terms (IterTokens, IterStream, Tee with side sinks, ConcatStreams incl. nil streams, FilterProc, Deref with resolve/decline/fail, Decode source) of depth<=4 with a failing source/sink/resolver/reader planted at random positions; compared with TokensFromStream; non-trivial = term has at least one combinator"
	wC := newCaseWriter(dir, "copy", "Corr_streams", "copy_case", "check_copy", 300, repC)
	wP := newCaseWriter(dir, "proc", "Corr_streams", "proc_case", "check_proc", 300, repP)
	r := newRand(seed, "streams")

	runCopy := func(src *procSpec, sinks []*sinkSpec, tag string) {
		rc := newRecorder()
		p := src.build(rc)
		pulled := 0
		var counting sb.Proc
		counting = func(t *sb.Token) (sb.Proc, error) {
			err := (&p).Next(t)
			if err != nil {
				return nil, err
			}
			if t.Valid() {
				pulled++
				return counting, nil
			}
			return nil, nil
		}
		var built []sb.Sink
		for _, s := range sinks {
			built = append(built, s.build(rc))
		}
		if copyLeaked >= 2 {
			return // two runs of Copy did not return (reported): each keeps a goroutine spinning, start no more
		}
		err := withWatchdog(5*time.Second, &copyLeaked, func() error {
			return guard(func() error { return sb.Copy(&counting, built...) })
		})
		repC.Evaluations++
		desc := tag + " src=" + src.coq() + " sinks=" + coqSinks(sinks)
		if classOf(err) == "EDiverge" {
			repC.violate("C14", "copy-diverges", "Copy did not return within 5 s", desc)
			repC.violate("C15", "sink-fault-lost", "Copy did not return within 5 s (a failing sink stays installed)", desc)
			return
		}
		repC.count("class:" + classOf(err))
		repC.count(fmt.Sprintf("nsinks:%d", len(sinks)))
		// ---- direct oracles (C14 / C15) on plain configurations ----
		srcTs, srcFails := src.den()
		plain := true
		for _, s := range sinks {
			if s.kind != "rec" && s.kind != "nil" {
				plain = false
			}
		}
		if plain && !src.hasKind("tee") && !src.hasKind("decode") {
			need := 0
			anyLive := false
			for _, s := range sinks {
				if s.kind != "rec" {
					continue
				}
				anyLive = true
				if s.k == 0 || s.k > len(srcTs) {
					need = len(srcTs)
				} else if s.k > need {
					need = s.k
				}
			}
			wantsMore := false // some sink wants more tokens than the source has: only then is the fault reached
			for _, s := range sinks {
				if s.kind == "rec" && (s.k == 0 || s.k > len(srcTs)) {
					wantsMore = true
				}
			}
			faultHit := srcFails && wantsMore
			if len(sinks) > 0 && !anyLive {
				need = 0
				if len(srcTs) > 0 {
					need = 1 // Copy fetches one token before it notices that every sink is nil
				} else if srcFails {
					faultHit = true
				}
			}
			if faultHit {
				if classOf(err) != "EFault" {
					repC.violate("C15", "source-fault-lost", fmt.Sprintf("the source failed after %d tokens but Copy returned %v", len(srcTs), err), desc)
				}
			} else {
				if err != nil {
					repC.violate("C14", "copy-error", fmt.Sprintf("Copy failed: %v", err), desc)
				}
				if anyLive || len(sinks) > 0 {
					if pulled != need && !(need < len(srcTs) && pulled == need) {
						repC.violate("C14", "over-pull", fmt.Sprintf("%d tokens were pulled from the source, the longest-lived consumer needs %d", pulled, need), desc)
					}
				}
				if len(sinks) == 0 && pulled != 0 {
					repC.violate("C14", "over-pull", fmt.Sprintf("no sinks but %d tokens were pulled", pulled), desc)
				}
			}
			for _, s := range sinks {
				if s.kind != "rec" {
					continue
				}
				want := expectedLog(srcTs, s.k)
				if faultHit {
					// everything before the fault, no EOS
					want = expectedLog(srcTs, s.k)
					if len(want) > 0 && want[len(want)-1] == nil {
						want = want[:len(want)-1]
					}
				}
				if !sameLog(rc.logs[s.id], want) {
					prop := "C14"
					if faultHit {
						prop = "C15"
					}
					repC.violate(prop, "delivery", fmt.Sprintf("sink %d saw [%s], expected [%s]", s.id, descLog(rc.logs[s.id]), descLog(want)), desc)
				}
			}
		}
		if classOf(err) == "EPanic" {
			repC.violate("C14", "copy-panic", fmt.Sprintf("%v", err), desc)
		}
		// reference interpreter of the sink protocol for nested configurations (no AltSink, plain token sources)
		noAlt := true
		for _, s := range sinks {
			if s.hasAlt() {
				noAlt = false
			}
		}
		if noAlt && !plain && (src.kind == "tokens" && (src.cont == nil || src.cont.kind == "fail")) {
			wantLogs, wantFail, _ := refCopy(srcTs, srcFails, sinks)
			if wantFail != (err != nil) {
				repC.violate("C14", "nested-sinks-result", fmt.Sprintf("Copy returned %v, the reference interpreter of the sink protocol expects failure=%v", err, wantFail), desc)
			} else {
				for id, wl := range wantLogs {
					var got []*sb.Token
					if cv, ok := rc.cv[id]; ok {
						for i := range *cv {
							got = append(got, &(*cv)[i])
						}
					} else {
						got = rc.logs[id]
					}
					okLog := sameLog(got, wl)
					if wantFail && !okLog && len(wl) > 0 {
						okLog = sameLog(got, wl[:len(wl)-1]) // the failing round may not have reached this sink
					}
					if !okLog {
						repC.violate("C14", "nested-sinks-delivery", fmt.Sprintf("sink %d saw [%s], the reference interpreter of the sink protocol gives [%s]", id, descLog(got), descLog(wl)), desc)
						break
					}
				}
			}
		}
		wC.add(fmt.Sprintf("CopyCase %s %s %s %s %d%%nat", src.coq(), coqSinks(sinks), classOf(err), coqLogs(rc), pulled), desc, len(sinks) > 0)
	}

	// exhaustive small configurations: n<=4 tokens, <=3 plain sinks, every lifetime
	for n := 0; n <= 4; n++ {
		ts := make([]sb.Token, n)
		for i := range ts {
			ts[i] = sb.Token{Kind: sb.KindInt, Value: i}
		}
		lifes := []int{0}
		for k := 1; k <= n+1; k++ {
			lifes = append(lifes, k)
		}
		lifes = append(lifes, -1) // nil sink
		var rec func(cur []int)
		rec = func(cur []int) {
			if len(cur) <= 3 {
				var sinks []*sinkSpec
				for i, l := range cur {
					if l < 0 {
						sinks = append(sinks, &sinkSpec{kind: "nil"})
					} else {
						sinks = append(sinks, &sinkSpec{kind: "rec", id: i + 1, k: l})
					}
				}
				if n <= 3 || len(cur) <= 2 || thorough {
					runCopy(&procSpec{kind: "tokens", ts: ts}, sinks, "exhaustive")
				}
			}
			if len(cur) == 3 {
				return
			}
			for _, l := range lifes {
				rec(append(append([]int{}, cur...), l))
			}
		}
		rec(nil)
	}
	// failing source at every index, plain sinks
	for n := 0; n <= 5; n++ {
		ts := make([]sb.Token, n)
		for i := range ts {
			ts[i] = sb.Token{Kind: sb.KindInt, Value: i}
		}
		for _, cfg := range [][]int{{0}, {0, 2}, {1, 0}, {3, 3, 0}, {2}, {0, 0, 0, 1, 6}} {
			var sinks []*sinkSpec
			for i, l := range cfg {
				sinks = append(sinks, &sinkSpec{kind: "rec", id: i + 1, k: l})
			}
			runCopy(&procSpec{kind: "tokens", ts: ts, cont: &procSpec{kind: "fail"}}, sinks, "source-fault")
		}
	}
	// CollectValueTokens: values followed by more tokens, unbalanced input
	for i := 0; i < 150; i++ {
		v := randValue(r, 1+r.Intn(3), false)
		ts := v.flatten(nil)
		if len(ts) > 30 {
			continue
		}
		extra := smallTokens(r, 3)
		all := append(append([]sb.Token{}, ts...), extra...)
		rc := newRecorder()
		spec := &sinkSpec{kind: "collectvalue", id: 1}
		err := guard(func() error { return sb.Copy(tokensFrom(all), spec.build(rc)) })
		repC.Evaluations++
		desc := "collectvalue value=[" + descTokens(ts) + "] then [" + descTokens(extra) + "]"
		if err != nil || !tokensExactEq([]sb.Token(*rc.cv[1]), ts) {
			repC.violate("C14", "collect-value", fmt.Sprintf("CollectValueTokens gathered [%s] (%v), the first complete value is [%s]", descTokens([]sb.Token(*rc.cv[1])), err, descTokens(ts)), desc)
		}
		runCopy(&procSpec{kind: "tokens", ts: all}, []*sinkSpec{{kind: "collectvalue", id: 1}, {kind: "rec", id: 2, k: 0}}, "collectvalue")
		// unbalanced: cut inside the value
		if len(ts) > 1 {
			cut := ts[:1+r.Intn(len(ts)-1)]
			rc2 := newRecorder()
			err2 := guard(func() error { return sb.Copy(tokensFrom(cut), (&sinkSpec{kind: "collectvalue", id: 1}).build(rc2)) })
			if err2 == nil && !tokensExactEq(cut, ts) {
				// a cut may still be a complete value (e.g. leaf); only flag when the cut is not balanced
				if malformedOrOpen(cut) {
					repC.violate("C14", "collect-value-unbalanced", "CollectValueTokens accepted an unbalanced prefix", "collectvalue cut=["+descTokens(cut)+"]")
				}
			}
			runCopy(&procSpec{kind: "tokens", ts: cut}, []*sinkSpec{{kind: "collectvalue", id: 1}}, "collectvalue-cut")
		}
	}
	// random configurations with nesting
	nrnd := 700
	if thorough {
		nrnd = 20000
	}
	for i := 0; i < nrnd; i++ {
		g := &idGen{}
		n := r.Intn(8)
		if r.Intn(10) == 0 {
			n = 20 + r.Intn(20)
		}
		var src *procSpec
		if r.Intn(4) == 0 {
			src = randProc(r, g, 2, r.Intn(2) == 0)
		} else {
			src = &procSpec{kind: "tokens", ts: smallTokens(r, n)}
			if r.Intn(5) == 0 {
				src.cont = &procSpec{kind: "fail"}
			}
		}
		var sinks []*sinkSpec
		m := r.Intn(6)
		if i%12 == 0 {
			m = 7 + r.Intn(30) // more sinks than any fixed-size scratch array: 7..36
		}
		for j := 0; j < m; j++ {
			sinks = append(sinks, randSink(r, g, 2, r.Intn(3) == 0, true, n))
		}
		runCopy(src, sinks, "random")
	}

	// many plain sinks in one Copy (more than any fixed-size scratch array holds): 8, 9, ... 65
	for _, m := range []int{8, 9, 10, 16, 17, 32, 33, 65} {
		for trial := 0; trial < 3; trial++ {
			n := 1 + r.Intn(6)
			var sinks []*sinkSpec
			for j := 0; j < m; j++ {
				k := 0
				if r.Intn(3) == 0 {
					k = 1 + r.Intn(n+1)
				}
				sinks = append(sinks, &sinkSpec{kind: "rec", id: j + 1, k: k})
			}
			src := &procSpec{kind: "tokens", ts: smallTokens(r, n)}
			if trial == 2 {
				src.cont = &procSpec{kind: "fail"}
			}
			runCopy(src, sinks, "many-sinks")
		}
	}

	// ---- proc cases ----
	npr := 700
	if thorough {
		npr = 20000
	}
	for i := 0; i < npr; i++ {
		g := &idGen{}
		allowFail := i%3 == 0
		p := randProc(r, g, 1+r.Intn(4), allowFail)
		if i%4 == 1 {
			// directed: a Tee on top of a plain source with nested side sinks (sequences of run-to-end sinks,
			// sinks that finish before the source ends, value collectors followed by more values)
			src := &procSpec{kind: "tokens", ts: smallTokens(r, 7)}
			if r.Intn(2) == 0 {
				src.cont = &procSpec{kind: "tokens", ts: smallTokens(r, 4)}
			}
			p = &procSpec{kind: "tee", subs: []*procSpec{src}}
			if r.Intn(2) == 0 {
				p.cont = &procSpec{kind: "tokens", ts: smallTokens(r, 3)}
			}
			for j, m := 0, 1+r.Intn(2); j < m; j++ {
				a := randSink(r, g, 2, false, false, 6)
				if a.nilAtBuild() {
					a = randLeafSink(r, g, false, 6)
				}
				p.sinks = append(p.sinks, a)
			}
		}
		rc := newRecorder()
		built := p.build(rc)
		ts, err := collect(&built)
		repP.Evaluations++
		repP.count("class:" + classOf(err))
		desc := p.coq()
		if len(desc) > 3000 {
			continue
		}
		if classOf(err) == "EPanic" || classOf(err) == "EDiverge" {
			repP.violate("C13", "proc-panic", fmt.Sprintf("%v", err), desc)
		}
		// reference denotation (C13 transparency, C15 fault propagation) for terms without Tee side sinks and decoders
		if !p.hasKind("decode") && !hasSinks(p) {
			want, fails := p.den()
			if fails {
				if classOf(err) != "EFault" {
					repP.violate("C15", "stream-fault-lost", fmt.Sprintf("a source/resolver failed but the stream returned %v after %d tokens", err, len(ts)), desc)
				} else if !tokensExactEq(ts, want) {
					repP.violate("C15", "fault-prefix", fmt.Sprintf("tokens before the fault [%s] differ from the fault-free prefix [%s]", descTokens(ts), descTokens(want)), desc)
				}
			} else if err != nil || !tokensExactEq(ts, want) {
				repP.violate("C13", "combinator-not-transparent", fmt.Sprintf("got (%v) [%s], the combinators' definition gives [%s]", err, descTokens(ts), descTokens(want)), desc)
			}
		}
		// Tee at the top of the term: the downstream sees what it would see without the side sinks, and each side
		// sink sees what Copy would deliver to it from the Tee's source - the end-of-stream signal included, offered
		// until every side sink has finished (reference interpreter of the sink protocol; no AltSink, no failures)
		if p.kind == "tee" && !p.hasKind("decode") && !hasSinks(p.subs[0]) && !hasSinks(p.cont) {
			noAlt := true
			for _, sk := range p.sinks {
				if sk.hasAlt() || sk.nilAtBuild() {
					noAlt = false
				}
			}
			srcTs, srcFails := p.subs[0].den()
			all, fails := p.den()
			if noAlt && !fails && !srcFails {
				wantLogs, wantFail, _ := refCopy(srcTs, false, p.sinks)
				if !wantFail {
					repP.count("tee-oracle")
					if err != nil || !tokensExactEq(ts, all) {
						repP.violate("C13", "combinator-not-transparent", fmt.Sprintf("downstream of a Tee got (%v) [%s], without the side sinks it is [%s]", err, descTokens(ts), descTokens(all)), desc)
					}
					for id, wl := range wantLogs {
						var got []*sb.Token
						if cv, ok := rc.cv[id]; ok {
							for i := range *cv {
								got = append(got, &(*cv)[i])
							}
						} else {
							got = rc.logs[id]
						}
						if !sameLog(got, wl) {
							repP.violate("C14", "tee-side-sink-delivery", fmt.Sprintf("side sink %d of a Tee saw [%s], the reference interpreter of the sink protocol gives [%s]", id, descLog(got), descLog(wl)), desc)
						}
					}
				}
			}
		}
		wP.add(fmt.Sprintf("ProcCase %s %s %s %s", p.coq(), coqTokens(ts), classOf(err), coqLogs(rc)), desc, p.kind != "tokens")
	}
	streamsSharedToken(repC, "C14")
	streamsSharedToken(repP, "C13")
	apiFilterStale(repP)
	apiDerefResolverBoth(repP)
	apiConcatAdvancesInPlace(repC)
	apiFilterOverFaults(repP)
	apiTreeIterAfterEdit(repP)
	apiSinkMarshalFaults(repP)
	apiCollectorReuse(repC, r)
	apiEndedStreamsAndSinkMarshal(repP, r)
	apiEOFWrappedFaults(repP)
	apiSinkFaultWithCont(repC)
	streamsMarshalFaults(repP)
	apiCompareFaults(repP, r, 200)
	streamsDerefSubFault(repP)
	wC.flush()
	wP.flush()
	repC.write(dir)
	repP.write(dir)
}

func hasSinks(p *procSpec) bool {
	if p == nil {
		return false
	}
	if len(p.sinks) > 0 {
		return true
	}
	for _, s := range p.subs {
		if hasSinks(s) {
			return true
		}
	}
	return hasSinks(p.cont)
}

func malformedOrOpen(ts []sb.Token) bool {
	depth := 0
	pending := false
	for _, t := range ts {
		switch {
		case endOf[t.Kind] != 0:
			depth++
			pending = false
		case isEndKind(t.Kind):
			depth--
			pending = false
		case t.Kind == sb.KindTypeName:
			pending = true
		default:
			pending = false
		}
	}
	return depth > 0 || pending
}
