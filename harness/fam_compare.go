package main

import (
	"bytes"
	"fmt"
	"io"
	"math"
	"math/rand"
	"sort"
	"strings"

	"github.com/reusee/sb"
)

func signStr(s int, err error) string {
	if err != nil {
		return "(CE " + classOf(err) + ")"
	}
	switch {
	case s < 0:
		return "(CO Lt)"
	case s > 0:
		return "(CO Gt)"
	}
	return "(CO Eq)"
}

func cmpTokensImpl(a, b []sb.Token) (res int, err error) {
	err = guard(func() error {
		var e error
		res, e = sb.Compare(tokensFrom(a), tokensFrom(b))
		return e
	})
	return
}

func cmpBytesImpl(a, b []byte) (res int, err error) {
	err = guard(func() error {
		var e error
		res, e = sb.CompareBytes(a, b)
		return e
	})
	return
}

func cmpSegImpl(a, b []byte) (res int, err error) {
	return cmpSegFlavours(a, b, -1, -1, nil)
}

// the segmented route with independently chosen reader flavours on the two sides (-1 = bytes.Reader)
func cmpSegFlavours(a, b []byte, fa, fb int, r *rand.Rand) (res int, err error) {
	mk := func(data []byte, fl int) io.Reader {
		if fl < 0 {
			return bytes.NewReader(data)
		}
		rd, _ := mkReader(fl, data, false, r)
		return rd
	}
	err = guard(func() error {
		var e error
		res, e = sb.Compare(sb.DecodeForCompare(mk(a, fa)), sb.DecodeForCompare(mk(b, fb)))
		return e
	})
	return
}

// ---- independent reference: the documented order, written from the property text ----

func refValCmp(x, y any) int {
	c := func(lt, gt bool) int {
		if lt {
			return -1
		}
		if gt {
			return 1
		}
		return 0
	}
	switch a := x.(type) {
	case nil:
		return 0
	case bool:
		b := y.(bool)
		return c(!a && b, a && !b)
	case int:
		b := y.(int)
		return c(a < b, a > b)
	case int8:
		b := y.(int8)
		return c(a < b, a > b)
	case int16:
		b := y.(int16)
		return c(a < b, a > b)
	case int32:
		b := y.(int32)
		return c(a < b, a > b)
	case int64:
		b := y.(int64)
		return c(a < b, a > b)
	case uint:
		b := y.(uint)
		return c(a < b, a > b)
	case uint8:
		b := y.(uint8)
		return c(a < b, a > b)
	case uint16:
		b := y.(uint16)
		return c(a < b, a > b)
	case uint32:
		b := y.(uint32)
		return c(a < b, a > b)
	case uint64:
		b := y.(uint64)
		return c(a < b, a > b)
	case uintptr:
		b := y.(uintptr)
		return c(a < b, a > b)
	case float32:
		b := y.(float32)
		return c(a < b, a > b)
	case float64:
		b := y.(float64)
		return c(a < b, a > b)
	case string:
		return bytes.Compare([]byte(a), []byte(y.(string)))
	case []byte:
		return bytes.Compare(a, y.([]byte))
	}
	panic("refValCmp: unexpected type")
}

func refLex(a, b []sb.Token) int {
	for i := 0; ; i++ {
		if i == len(a) && i == len(b) {
			return 0
		}
		if i == len(a) {
			return -1
		}
		if i == len(b) {
			return 1
		}
		if a[i].Kind != b[i].Kind {
			if a[i].Kind < b[i].Kind {
				return -1
			}
			return 1
		}
		if c := refValCmp(a[i].Value, b[i].Value); c != 0 {
			return c
		}
	}
}

func hasNaNPayload(ts []sb.Token) bool {
	for _, t := range ts {
		switch v := t.Value.(type) {
		case float32:
			if v != v {
				return true
			}
		case float64:
			if v != v {
				return true
			}
		}
	}
	return false
}

func sgn(x int) int {
	if x < 0 {
		return -1
	}
	if x > 0 {
		return 1
	}
	return 0
}

var segLens = []int{0, 1, 2, 7, 8, 9, 15, 16, 23, 24, 25, 55, 56, 57, 119, 120, 121, 126, 127, 128, 129, 248, 249}

func famCompare(dir string, seed int64, tier string) {
	thorough := tier == "thorough"
	rep := newReport("compare", seed, tier)
	rep.Rule = "pairs of well-formed token streams: all same-kind pairs of a boundary alphabet (every kind x boundary values, strings/blobs around the segment boundaries 8/24/56/120 and the 128 prefix boundary, prefix pairs), sampled cross-kind pairs, random nested streams and near-duplicates differing in one token; triples for transitivity on the Go side; non-trivial = both streams non-empty; distinct by case text"
	w := newCaseWriter(dir, "compare", "Corr_compare", "cmp_case", "check_cmp", 400, rep)
	repCb := newReport("compare_raw", seed, tier)
	repCb.Rule = "raw byte strings (mutated/truncated encodings) through CompareBytes; non-trivial = both non-empty"
	wCb := newCaseWriter(dir, "compare_raw", "Corr_compare", "cb_case", "check_cb", 500, repCb)
	r := newRand(seed, "compare")

	alpha := boundaryTokens(r, segLens)
	// prefix pairs: same fill, different lengths
	for _, k := range []sb.Kind{sb.KindString, sb.KindBytes, sb.KindTypeName, sb.KindLiteral, sb.KindRef} {
		base := bytes.Repeat([]byte{'q'}, 300)
		for _, n := range segLens {
			if k == sb.KindBytes || k == sb.KindRef {
				alpha = append(alpha, sb.Token{Kind: k, Value: append([]byte{}, base[:n]...)})
			} else {
				alpha = append(alpha, sb.Token{Kind: k, Value: string(base[:n])})
			}
		}
		// differing exactly at a segment boundary
		for _, n := range []int{8, 9, 24, 25, 56, 57} {
			m := append([]byte{}, base[:n+3]...)
			m[n-1] = 'r'
			if k == sb.KindBytes || k == sb.KindRef {
				alpha = append(alpha, sb.Token{Kind: k, Value: m})
			} else {
				alpha = append(alpha, sb.Token{Kind: k, Value: string(m)})
			}
		}
	}
	// literal (and string / type name) tokens with NUMERIC texts: ordered bytewise like every other text
	for _, txt := range []string{"10", "9", "1a", "-5", "-10", "1e3", "0.5", "100", "1.50", "1.5", "007", "7", "+7", "1E3", "0x10", "Inf", "NaN", ""} {
		alpha = append(alpha, sb.Token{Kind: sb.KindLiteral, Value: txt}, sb.Token{Kind: sb.KindString, Value: txt})
	}
	byKind := map[sb.Kind][]sb.Token{}
	for _, t := range alpha {
		byKind[t.Kind] = append(byKind[t.Kind], t)
	}

	type pair struct{ a, b []sb.Token }
	var pairs []pair
	// same-kind pairs (all for small groups, sampled for big ones)
	kindsSorted := make([]int, 0, len(byKind))
	for k := range byKind {
		kindsSorted = append(kindsSorted, int(k))
	}
	sort.Ints(kindsSorted) // map order would make the sampled pairs differ between two runs of one seed
	for _, kk := range kindsSorted {
		ts := byKind[sb.Kind(kk)]
		n := len(ts)
		limit := 250
		if thorough {
			limit = 4000
		}
		if n*n <= limit {
			for _, x := range ts {
				for _, y := range ts {
					pairs = append(pairs, pair{[]sb.Token{x}, []sb.Token{y}})
				}
			}
		} else {
			for i := 0; i < limit; i++ {
				pairs = append(pairs, pair{[]sb.Token{ts[r.Intn(n)]}, []sb.Token{ts[r.Intn(n)]}})
			}
		}
	}
	ncross := 1500
	nrand := 600
	if thorough {
		ncross, nrand = 40000, 20000
	}
	for i := 0; i < ncross; i++ {
		pairs = append(pairs, pair{[]sb.Token{alpha[r.Intn(len(alpha))]}, []sb.Token{alpha[r.Intn(len(alpha))]}})
	}
	// Min / Max against everything
	for _, t := range alpha {
		pairs = append(pairs, pair{[]sb.Token{sb.Min}, []sb.Token{t}}, pair{[]sb.Token{t}, []sb.Token{sb.Max}})
	}
	// random streams, prefixes and near-duplicates
	for i := 0; i < nrand; i++ {
		a := randTokens(r, 8)
		var b []sb.Token
		switch r.Intn(4) {
		case 0:
			b = randTokens(r, 8)
		case 1: // proper prefix
			b = append([]sb.Token{}, a[:r.Intn(len(a)+1)]...)
		case 2: // near-duplicate: one token replaced
			b = append([]sb.Token{}, a...)
			if len(b) > 0 {
				j := r.Intn(len(b))
				same := byKind[b[j].Kind]
				if len(same) > 0 && r.Intn(3) != 0 {
					b[j] = same[r.Intn(len(same))]
				} else {
					b[j] = randToken(r)
				}
			}
		default: // identical copy
			b = append([]sb.Token{}, a...)
		}
		if r.Intn(2) == 0 {
			a, b = b, a
		}
		pairs = append(pairs, pair{a, b})
	}
	// the shape of c06_decomposition / c06_tails_irrelevant: a pairwise-SAME prefix (signed zeros of both float
	// widths stand against each other in it), then a pair of heads, then two unrelated tails - and the same front
	// once more with other tails: the heads decide, whatever follows (own random stream: the cases above stay put)
	{
		rf := newRand(seed, "compare-firstdiff")
		nfd := 150
		if thorough {
			nfd = 5000
		}
		notNaN := func(ts []sb.Token) []sb.Token {
			var out []sb.Token
			for _, t := range ts {
				if !hasNaNPayload([]sb.Token{t}) {
					out = append(out, t)
				}
			}
			return out
		}
		negz := math.Copysign(0, -1)
		for i := 0; i < nfd; i++ {
			var p, q []sb.Token
			for _, t := range notNaN(randTokens(rf, 5)) {
				p, q = append(p, t), append(q, t)
				if rf.Intn(2) == 0 {
					z1, z2 := 0.0, negz
					if rf.Intn(2) == 0 {
						z1, z2 = z2, z1
					}
					if rf.Intn(2) == 0 {
						p, q = append(p, sb.Token{Kind: sb.KindFloat64, Value: z1}), append(q, sb.Token{Kind: sb.KindFloat64, Value: z2})
					} else {
						p, q = append(p, sb.Token{Kind: sb.KindFloat32, Value: float32(z1)}), append(q, sb.Token{Kind: sb.KindFloat32, Value: float32(z2)})
					}
				}
			}
			x := alpha[rf.Intn(len(alpha))]
			y := x
			switch same := byKind[x.Kind]; rf.Intn(4) {
			case 0:
				y = alpha[rf.Intn(len(alpha))]
			case 1: // the heads are the same too: the decision moves into the tails
			default:
				y = same[rf.Intn(len(same))]
			}
			if hasNaNPayload([]sb.Token{x, y}) {
				continue
			}
			front := func(h sb.Token, pre []sb.Token, tail []sb.Token) []sb.Token {
				out := append(append([]sb.Token{}, pre...), h)
				return append(out, tail...)
			}
			for k := 0; k < 2; k++ {
				ta, tb := notNaN(randTokens(rf, 4)), notNaN(randTokens(rf, 4))
				if rf.Intn(4) == 0 {
					ta = nil
				}
				if rf.Intn(4) == 0 {
					tb = nil
				}
				pairs = append(pairs, pair{front(x, p, ta), front(y, q, tb)})
			}
			// and with one side ending where the other's head stands (the shorter stream sorts first)
			if rf.Intn(3) == 0 {
				pairs = append(pairs, pair{append([]sb.Token{}, p...), front(y, q, nil)}, pair{front(x, p, nil), append([]sb.Token{}, q...)})
			}
		}
	}
	pairs = append(pairs, pair{nil, nil})
	// byte slices that ALIAS one another: views of one buffer with the same start and different lengths, with
	// different starts, and the very same slice (an implementation may not decide by address)
	for _, k := range []sb.Kind{sb.KindBytes, sb.KindRef} {
		buf := payload(r, 64)
		same := bytes.Repeat([]byte{'z'}, 64)
		for _, c := range [][2][]byte{{buf[:9], buf[:17]}, {buf[:17], buf[:9]}, {buf[:1], buf[:2]}, {buf[:32], buf[:32]}, {buf[:0], buf[:5]}, {buf[3:9], buf[3:20]},
			{same[:8], same[8:16]}, {same[:8], same[4:13]}, {same[:20], same[:20]}, {buf[5:30], buf[6:30]}} {
			pairs = append(pairs, pair{[]sb.Token{{Kind: k, Value: c[0]}}, []sb.Token{{Kind: k, Value: c[1]}}},
				pair{[]sb.Token{tokI(1), {Kind: k, Value: c[0]}, tokI(2)}, []sb.Token{tokI(1), {Kind: k, Value: c[1]}, tokI(1)}})
		}
	}
	// a stream against itself extended by one more token, for every boundary token (a proper prefix sorts first,
	// whatever the extra token is: Min, Max, end markers, ...)
	seenKind := map[sb.Kind]int{}
	for _, t := range alpha {
		seenKind[t.Kind]++
		if seenKind[t.Kind] > 2 {
			continue
		}
		base := randTokens(r, 3)
		pairs = append(pairs, pair{nil, []sb.Token{t}}, pair{[]sb.Token{t}, nil})
		pairs = append(pairs, pair{base, append(append([]sb.Token{}, base...), t)}, pair{append(append([]sb.Token{}, base...), t), base})
	}

	// very long strings and blobs (segments double without bound: every fixed buffer is exceeded somewhere);
	// compressible payloads, so that the model evaluates them too
	for _, n := range []int{32760, 32769, 65600, 98296, 100000, 200000} {
		for _, k := range []sb.Kind{sb.KindString, sb.KindBytes} {
			mk := func(last byte, extra int) sb.Token {
				b := bytes.Repeat([]byte{'q'}, n+extra)
				b[n-1] = last
				if k == sb.KindString {
					return sb.Token{Kind: k, Value: string(b)}
				}
				return sb.Token{Kind: k, Value: b}
			}
			pairs = append(pairs,
				pair{[]sb.Token{mk('q', 0)}, []sb.Token{mk('q', 0)}},
				pair{[]sb.Token{mk('a', 0), tokI(1)}, []sb.Token{mk('z', 0)}},
				pair{[]sb.Token{mk('q', 0)}, []sb.Token{mk('q', 1)}})
		}
	}
	for pi, p := range pairs {
		desc := "a=[" + descTokens(p.a) + "] b=[" + descTokens(p.b) + "]"
		nan := hasNaNPayload(p.a) || hasNaNPayload(p.b)
		ea := runEncode(p.a, 0, 0).bytes
		eb := runEncode(p.b, 0, 0).bytes
		s1, e1 := cmpTokensImpl(p.a, p.b)
		s2, e2 := cmpBytesImpl(ea, eb)
		s3, e3 := cmpSegImpl(ea, eb)
		rep.Evaluations += 3
		// the same route with differently fragmenting readers on the two sides must give the same answer
		if len(ea)+len(eb) < 4000 {
			fa, fb := r.Intn(len(readerFlavours)), r.Intn(len(readerFlavours))
			s3b, e3b := cmpSegFlavours(ea, eb, fa, fb, r)
			rep.Evaluations++
			if classOf(e3b) != classOf(e3) || sgn(s3b) != sgn(s3) {
				rep.violate("C07", "segmented-route-reader-dependent", fmt.Sprintf("DecodeForCompare over bytes.Reader gives %d (%v), over readers %q/%q gives %d (%v)", sgn(s3), e3, readerFlavours[fa], readerFlavours[fb], sgn(s3b), e3b), desc)
			}
		}
		for _, t := range p.a {
			rep.count("kind:" + kindClass(t.Kind))
		}
		rep.count(fmt.Sprintf("sign:%d", sgn(s1)))
		if nan {
			rep.count("nan-payload (outside the C06/C07 domain; model correspondence only)")
		}
		if !nan {
			// C06 oracles
			if e1 != nil {
				rep.violate("C06", "compare-error", fmt.Sprintf("Compare failed: %v", e1), desc)
			} else {
				want := refLex(p.a, p.b)
				if sgn(s1) != want {
					rep.violate("C06", "not-the-documented-order", fmt.Sprintf("Compare=%d, documented lexicographic order gives %d", s1, want), desc)
				}
				sr, er := cmpTokensImpl(p.b, p.a)
				rep.Evaluations++
				if er != nil || sgn(sr) != -sgn(s1) {
					rep.violate("C06", "antisymmetry", fmt.Sprintf("Compare(a,b)=%d but Compare(b,a)=%d (%v)", s1, sr, er), desc)
				}
				if s1 == 0 && !tokensNumEq(p.a, p.b) {
					rep.violate("C06", "zero-for-different-streams", "Compare returned 0 for streams that are not token-for-token identical", desc)
				}
			}
			// C07 oracle
			if e1 == nil && (e2 != nil || e3 != nil || sgn(s2) != sgn(s1) || sgn(s3) != sgn(s1)) {
				route := "bytes"
				if e2 == nil && sgn(s2) == sgn(s1) {
					route = "segmented"
				}
				rep.violate("C07", "routes-disagree", fmt.Sprintf("tokens=%d bytes=%d (%v) segmented=%d (%v): the %s route disagrees", sgn(s1), sgn(s2), e2, sgn(s3), e3, route), desc)
			}
		}
		w.add(fmt.Sprintf("CmpCase %s %s %s %s %s", coqTokens(p.a), coqTokens(p.b), signStr(s1, e1), signStr(s2, e2), signStr(s3, e3)), desc, len(p.a) > 0 && len(p.b) > 0)
		// the Must* wrappers and the caller-buffer variant of the comparison decoder agree with what they wrap
		if !nan && len(ea)+len(eb) < 4000 {
			apiMustCompare(rep, p.a, p.b, ea, eb)
		}
		if pi%7 == 0 || len(ea) > 30000 {
			apiDecodeBufferForCompare(rep, ea, "a=["+truncate(descTokens(p.a), 300)+"]")
		}
		if !nan && len(ea)+len(eb) < 70000 {
			apiCompareScratch(rep, r, ea, eb, s1, e1, desc)
		}
	}

	// reflexivity, Min/Max
	for _, t := range alpha {
		if hasNaNPayload([]sb.Token{t}) {
			continue
		}
		desc := "t=" + descToken(t)
		if s, e := cmpTokensImpl([]sb.Token{t}, []sb.Token{t}); e != nil || s != 0 {
			rep.violate("C06", "reflexivity", fmt.Sprintf("Compare(t,t)=%d (%v)", s, e), desc)
		}
		if t.Kind != sb.KindMin && t.Kind != sb.KindMax {
			if s, e := cmpTokensImpl([]sb.Token{sb.Min}, []sb.Token{t}); e != nil || s >= 0 {
				rep.violate("C06", "min-not-below", fmt.Sprintf("Compare(Min,t)=%d (%v)", s, e), desc)
			}
			if s, e := cmpTokensImpl([]sb.Token{t}, []sb.Token{sb.Max}); e != nil || s >= 0 {
				rep.violate("C06", "max-not-above", fmt.Sprintf("Compare(t,Max)=%d (%v)", s, e), desc)
			}
		}
		rep.Evaluations += 3
	}
	// transitivity on triples (single tokens, biased to same kind)
	ntri := 20000
	if thorough {
		ntri = 600000
	}
	clean := alpha[:0:0]
	for _, t := range alpha {
		if !hasNaNPayload([]sb.Token{t}) {
			clean = append(clean, t)
		}
	}
	for i := 0; i < ntri; i++ {
		x := clean[r.Intn(len(clean))]
		var y, z sb.Token
		if r.Intn(3) != 0 {
			same := byKind[x.Kind]
			y, z = same[r.Intn(len(same))], same[r.Intn(len(same))]
			if hasNaNPayload([]sb.Token{y, z}) {
				continue
			}
		} else {
			y, z = clean[r.Intn(len(clean))], clean[r.Intn(len(clean))]
		}
		sxy, _ := cmpTokensImpl([]sb.Token{x}, []sb.Token{y})
		syz, _ := cmpTokensImpl([]sb.Token{y}, []sb.Token{z})
		sxz, _ := cmpTokensImpl([]sb.Token{x}, []sb.Token{z})
		rep.Evaluations += 3
		if sxy <= 0 && syz <= 0 && !(sxz <= 0) || (sxy < 0 && syz <= 0 || sxy <= 0 && syz < 0) && !(sxz < 0) {
			rep.violate("C06", "transitivity", fmt.Sprintf("x<=y (%d), y<=z (%d) but Compare(x,z)=%d", sxy, syz, sxz), "x="+descToken(x)+" y="+descToken(y)+" z="+descToken(z))
		}
	}

	// raw byte strings through CompareBytes (model fidelity for malformed input)
	nraw := 400
	if thorough {
		nraw = 8000
	}
	for i := 0; i < nraw; i++ {
		a := runEncode(randTokens(r, 4), 0, 0).bytes
		b := append([]byte{}, a...)
		if r.Intn(3) == 0 {
			b = runEncode(randTokens(r, 4), 0, 0).bytes
		}
		mut := func(x []byte) []byte {
			x = append([]byte{}, x...)
			if len(x) == 0 {
				return x
			}
			switch r.Intn(4) {
			case 0:
				x = x[:r.Intn(len(x))]
			case 1:
				x[r.Intn(len(x))] = byte(r.Intn(256))
			case 2:
				x[r.Intn(len(x))] = []byte{0xFF, 0xFE, 0xF7, 0xF6, 128, 127, 0}[r.Intn(7)]
			}
			return x
		}
		a, b = mut(a), mut(b)
		if len(a) > 300 || len(b) > 300 {
			continue
		}
		s, e := cmpBytesImpl(a, b)
		repCb.Evaluations++
		repCb.count("class:" + classOf(e))
		desc := fmt.Sprintf("a=%x b=%x", a, b)
		if classOf(e) == "EPanic" {
			repCb.violate("C07", "comparebytes-panic", fmt.Sprintf("CompareBytes panicked: %v", e), desc)
		}
		wCb.add(fmt.Sprintf("CbCase %s %s %s", coqRLE(a), coqRLE(b), signStr(s, e)), desc, len(a) > 0 && len(b) > 0)
	}

	// length headers whose varint terminates before the announced count of bytes is used up, or is longer than needed
	for _, hdr := range [][]byte{{0xFD, 0x03, 0x01}, {0xFD, 0x83, 0x00}, {0xFC, 0x03, 0x00, 0x01}, {0xFE, 0x03}, {0xFE, 0x80}, {0xFD, 0x80, 0x01}, {0xF7, 0x03, 0, 0, 0, 0, 0, 0, 1}} {
		for _, kb := range []byte{byte(sb.KindString), byte(sb.KindBytes), byte(sb.KindRef), byte(sb.KindLiteral)} {
			a := append(append([]byte{kb}, hdr...), bytes.Repeat([]byte{'q'}, 140)...)
			for _, b := range [][]byte{a, append(append([]byte{kb}, 3), 'q', 'q', 'q'), append(append([]byte{kb}, 0x7f), bytes.Repeat([]byte{'q'}, 127)...)} {
				for side := 0; side < 2; side++ {
					x, y := a, b
					if side == 1 {
						x, y = b, a
					}
					s, e := cmpBytesImpl(x, y)
					repCb.Evaluations++
					desc := fmt.Sprintf("odd length header: a=%x b=%x", truncBytes(x), truncBytes(y))
					if classOf(e) == "EPanic" {
						repCb.violate("C07", "comparebytes-panic", fmt.Sprintf("CompareBytes panicked: %v", e), desc)
					}
					// the three routes agree on what these bytes mean wherever all of them accept
					da, db := runDecode(x, false, 1, false, nil), runDecode(y, false, 1, false, nil)
					if da.err == nil && db.err == nil && e == nil {
						s1, e1 := cmpTokensImpl(da.toks, db.toks)
						if e1 == nil && sgn(s1) != sgn(s) && !hasNaNPayload(da.toks) && !hasNaNPayload(db.toks) {
							repCb.violate("C07", "routes-disagree", fmt.Sprintf("CompareBytes=%d, Compare over the decoded tokens=%d", sgn(s), sgn(s1)), desc)
						}
					}
					wCb.add(fmt.Sprintf("CbCase %s %s %s", coqRLE(x), coqRLE(y), signStr(s, e)), desc, true)
				}
			}
		}
	}
	// every truncation of one token's encoding against the whole (and the other way round), for every kind:
	// the read-error branches of CompareBytes, side A and side B
	seenK := map[sb.Kind]int{}
	for _, t := range alpha {
		seenK[t.Kind]++
		if seenK[t.Kind] > 2 {
			continue
		}
		whole := runEncode([]sb.Token{t}, 0, 0).bytes
		if len(whole) > 24 {
			continue
		}
		for k := 0; k < len(whole); k++ {
			for side := 0; side < 2; side++ {
				a, b := whole, whole[:k]
				if side == 1 {
					a, b = b, a
				}
				s, e := cmpBytesImpl(a, b)
				repCb.Evaluations++
				repCb.count("class:" + classOf(e))
				desc := fmt.Sprintf("truncated: a=%x b=%x", a, b)
				if classOf(e) == "EPanic" {
					repCb.violate("C07", "comparebytes-panic", fmt.Sprintf("CompareBytes panicked: %v", e), desc)
				}
				wCb.add(fmt.Sprintf("CbCase %s %s %s", coqRLE(a), coqRLE(b), signStr(s, e)), desc, len(a) > 0 && len(b) > 0)
			}
		}
	}

	// ---- the same token sequence delivered by different producers compares equal, and orders like the
	//      token lists: Compare reuses two tokens for the whole walk, producers differ in how they fill them
	//      (whole-token assignment, kind only for value-less tokens) ----
	{
		type producer struct {
			name string
			mk   func() sb.Stream
		}
		var prods []producer
		// marshalled values: sb.Tuple (its TupleEnd is written by kind only), funcs, structs, maps
		vals := []any{
			sb.Tuple{1, "a", int8(3)}, sb.Tuple{}, sb.Tuple{sb.Tuple{uint16(9)}, 2.5},
			func() (int, string, int8) { return 1, "a", 3 },
			struct {
				A int
				B []string
				C map[string]bool
			}{7, []string{"x", ""}, map[string]bool{"k": true}},
			[]any{nil, 1, []any{}, map[string]any{"a": nil}},
		}
		for i := range vals {
			v := vals[i]
			prods = append(prods, producer{fmt.Sprintf("Marshal(%T)", v), func() sb.Stream { return sb.Marshal(v) }})
		}
		for _, doc := range []string{`[1,{"a":null,"b":[true,"s"]},[],{}]`, `{"k":[[],[null]],"z":"y"}`, `"s"`} {
			d := doc
			prods = append(prods, producer{"DecodeJson " + d, func() sb.Stream { return sb.DecodeJson(strings.NewReader(d), nil) }})
		}
		for i := 0; i < 12; i++ {
			ts := randTokens(r, 5)
			ts = append(ts, sb.Token{Kind: sb.KindString, Value: string(payload(r, 1+r.Intn(30)))}, sb.Token{Kind: sb.KindInt, Value: i}, sb.Token{Kind: sb.KindBytes, Value: payload(r, r.Intn(20))}, sb.Token{Kind: sb.KindNil})
			enc := runEncode(ts, 0, 0).bytes
			prods = append(prods,
				producer{"Decode " + truncate(descTokens(ts), 200), func() sb.Stream { return sb.Decode(bytes.NewReader(enc)) }},
				producer{"DecodeForCompare " + truncate(descTokens(ts), 200), func() sb.Stream { return sb.DecodeForCompare(bytes.NewReader(enc)) }})
		}
		cmp := func(a, b sb.Stream) (res int, err error) {
			err = guard(func() error {
				var e error
				res, e = sb.Compare(a, b)
				return e
			})
			return
		}
		bts := boundaryTokens(r, []int{0, 1, 8, 9})
		for _, p := range prods {
			ts, e := collect(p.mk())
			if e != nil || hasNaNPayload(ts) {
				continue // float tokens carrying a NaN are outside Compare's domain (C06 domain edge)
			}
			rep.count("cross-producer")
			for _, order := range []int{0, 1} {
				var s int
				var err error
				if order == 0 {
					s, err = cmp(p.mk(), tokensFrom(ts))
				} else {
					s, err = cmp(tokensFrom(ts), p.mk())
				}
				rep.Evaluations++
				if err != nil || s != 0 {
					rep.violate("C06", "zero-for-identical-streams", fmt.Sprintf("Compare of one token sequence delivered by two producers = %s (producer on side %d)", signStr(s, err), order), "producer="+p.name)
					rep.violate("C07", "routes-disagree", fmt.Sprintf("the token route over one token sequence delivered by two producers gives %s (producer on side %d); the byte routes over its encoding give 0", signStr(s, err), order), "producer="+p.name)
				}
			}
			// against a list that differs in one place: the sign of the documented order
			for k := 0; k < 3 && len(ts) > 0; k++ {
				other := append([]sb.Token{}, ts...)
				pos := r.Intn(len(other))
				other[pos] = bts[r.Intn(len(bts))]
				if hasNaNPayload(other) || hasNaNPayload(ts) {
					continue
				}
				want := refLex(ts, other)
				s, err := cmp(p.mk(), tokensFrom(other))
				rep.Evaluations++
				if classOf(err) == "EPanic" || (err == nil && sgn(s) != want) {
					rep.violate("C06", "not-the-documented-order", fmt.Sprintf("Compare(producer, list) = %s, documented lexicographic order gives %d", signStr(s, err), want), fmt.Sprintf("producer=%s other=[%s]", p.name, truncate(descTokens(other), 200)))
				}
			}
		}
	}

	w.flush()
	wCb.flush()
	apiLongStreamReaders(rep, r)
	apiCompareEmptyStreams(rep)
	apiCompareLockStep(rep)
	apiSentinelBounds(rep)
	rep.write(dir)
	repCb.write(dir)
}

// token-for-token identical, numerically equal floats counting as equal
func tokensNumEq(a, b []sb.Token) bool {
	if len(a) != len(b) {
		return false
	}
	for i := range a {
		if a[i].Kind != b[i].Kind {
			return false
		}
		switch x := a[i].Value.(type) {
		case []byte:
			y, ok := b[i].Value.([]byte)
			if !ok || !bytes.Equal(x, y) {
				return false
			}
		case float32:
			y, ok := b[i].Value.(float32)
			if !ok || !(x == y || math.Float32bits(x) == math.Float32bits(y)) {
				return false
			}
		default:
			if a[i].Value != b[i].Value {
				return false
			}
		}
	}
	return true
}

var _ = rand.Int

func truncBytes(b []byte) []byte {
	if len(b) > 16 {
		return b[:16]
	}
	return b
}
