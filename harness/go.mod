module sbverif

go 1.22

require github.com/reusee/sb v0.0.0

require (
	github.com/reusee/e5 v0.0.0-20230610121337-9deb1a7b70ae // indirect
	github.com/reusee/pr3 v0.0.0-20231127041243-c2b238a94b9a // indirect
)

replace github.com/reusee/sb => /repo
