package main

import (
	"encoding/json"
	"fmt"
	"math"
	"math/rand"
	"reflect"
	"strings"

	"github.com/reusee/sb"
)

func tokS(s string) sb.Token { return sb.Token{Kind: sb.KindString, Value: s} }
func tokI(i int) sb.Token    { return sb.Token{Kind: sb.KindInt, Value: i} }
func tokK(k sb.Kind) sb.Token {
	return sb.Token{Kind: k}
}

// a registered type with Binary marshalling round-trips at every position (Go oracle; not in the model's universe)
func typedRegisteredMarshaler(repM, repU *Report) {
	type holder struct {
		S  Stamp
		P  *Stamp
		L  []Stamp
		M  map[string]Stamp
		A  any
		PN *Stamp
	}
	// (an interface position holding a Stamp comes back as the string it marshals to: equivalent by
	// the canonical stream of interface positions, which is what equivValues compares)
	v := holder{S: Stamp{1}, P: &Stamp{2}, L: []Stamp{{3}, {4}}, M: map[string]Stamp{"k": {5}}, A: Stamp{6}}
	ts, err := marshalTokens(v, nil)
	repU.Evaluations++
	desc := "registered binary marshaler: " + truncate(descTokens(ts), 300)
	if err != nil {
		repU.violate("C01", "marshal-error", fmt.Sprintf("%v", err), desc)
		return
	}
	// C08: the stream of a registered marshaler type does not depend on the level of indirection
	{
		x := Stamp{6}
		px := &x
		var ax any = x
		var apx any = &x
		direct, _ := marshalTokens(x, nil)
		for _, w := range []any{&x, &px, &ax, &apx, []any{x}, []*Stamp{&x}} {
			got, e := marshalTokens(w, nil)
			repM.Evaluations++
			if rv := reflect.ValueOf(w); rv.Kind() == reflect.Slice && len(got) >= 2 {
				got = got[1 : len(got)-1]
			}
			if e != nil || !tokensExactEq(direct, got) {
				repM.violate("C08", "indirection-changes-stream", fmt.Sprintf("a registered type with MarshalBinary marshals to %s directly and to %s as %T", descTokens(direct), descTokens(got), w), "registered binary marshaler Stamp{6}")
			}
		}
	}
	var back holder
	e := guard(func() error { return copyBudget(tokensFrom(ts), sb.Unmarshal(&back)) })
	if e != nil || !equivValues(reflect.ValueOf(v), reflect.ValueOf(back)) {
		repU.violate("C01", "roundtrip-error", fmt.Sprintf("a registered type with MarshalBinary does not round-trip: %v, got %+v", e, back), desc)
	}
}

// maps whose key streams have different token counts (the order is by the first differing token, not by length)
func typedKeyOrder(repM *Report, wM *CaseWriter, r *rand.Rand) {
	s1, s2, s3 := []int{5}, []int{1, 2, 3}, []int{}
	vals := []any{
		map[any]int{[3]int{1, 2, 3}: 1, [1]int{9}: 2, uintptr(5): 3, "s": 4, [2]int8{0, 1}: 5},
		map[*[]int]bool{&s1: true, &s2: false, &s3: true},
		map[[2]any]int{{1, "a"}: 1, {[2]int{1, 2}, 0}: 2, {nil, [3]bool{true, false, true}}: 3},
		map[any]string{struct{ A, B int }{1, 2}: "x", struct{ A int }{9}: "y", int8(3): "z"},
		map[any]any{[2]string{"b", ""}: nil, [1]string{"c"}: 1, "a": [2]int{1, 2}},
	}
	for _, x := range vals {
		v := reflect.ValueOf(x)
		ts, err := marshalTokens(x, nil)
		repM.Evaluations++
		desc := fmt.Sprintf("key-order: type=%v", v.Type())
		if err != nil {
			repM.violate("C08", "marshal-error", fmt.Sprintf("%v", err), desc)
			continue
		}
		if ok, msg := mapKeysAscending(ts); !ok {
			repM.violate("C08", "map-keys-not-ascending", msg, desc)
		}
		rb := rebuildMaps(r, v)
		ts2, e2 := marshalTokens(rb.Interface(), nil)
		if e2 != nil || !tokensExactEq(ts, ts2) {
			repM.violate("C08", "map-history-dependent", "the same content built through a different insertion/deletion history marshals differently", desc)
		}
		wM.add(fmt.Sprintf("MarshalCase %s %s %s %s", coqOpts(false, false, false), coqTy(v.Type()), coqGval(v), mobs(ts, err)), desc, true)
	}
}

// hand-made (stream, target) pairs on the edges of the acceptance relation (C05)
func typedTargeted(repU *Report, wU *CaseWriter, r *rand.Rand) {
	reg := coqRegistry()
	type pair struct {
		t  reflect.Type
		ts []sb.Token
	}
	var pairs []pair
	obj := func(fields ...sb.Token) []sb.Token {
		return append(append([]sb.Token{tokK(sb.KindObject)}, fields...), tokK(sb.KindObjectEnd))
	}
	wu := reflect.TypeOf(WithUnexported{})
	// objects naming exported, unexported and unknown fields of a struct with unexported fields
	pairs = append(pairs,
		pair{wu, obj(tokS("A"), tokI(1))},
		pair{wu, obj(tokS("hidden"), tokS("x"))},
		pair{wu, obj(tokS("secret"), tokK(sb.KindNil))},
		pair{wu, obj(tokS("secret"), tokI(5))},
		pair{wu, obj(tokS("A"), tokI(1), tokS("hidden"), tokS("x"), tokS("C"), sb.Token{Kind: sb.KindBool, Value: true})},
		pair{wu, obj(tokS("Unknown"), tokK(sb.KindArray), tokI(1), tokK(sb.KindArrayEnd), tokS("A"), tokI(2))},
		pair{wu, obj(tokS("a"), tokI(1))}, // case differs: unknown
		pair{wu, obj(tokS(""), tokI(1))},
		pair{wu, obj(tokK(sb.KindNil), tokI(1))},
		pair{wu, obj(tokI(1), tokI(1))},
		pair{wu, obj(tokS("A"))},
		pair{wu, obj(tokS("A"), tokK(sb.KindObjectEnd))},
	)
	// map targets with interface keys and composite / odd key tokens
	mak := reflect.TypeOf(map[any]int{})
	mm := func(items ...sb.Token) []sb.Token {
		return append(append([]sb.Token{tokK(sb.KindMap)}, items...), tokK(sb.KindMapEnd))
	}
	pairs = append(pairs,
		pair{mak, mm(tokI(1), tokI(2))},
		pair{mak, mm(tokK(sb.KindNil), tokI(2))},
		pair{mak, mm(tokK(sb.KindArray), tokI(1), tokK(sb.KindArrayEnd), tokI(2))},
		pair{mak, mm(tokK(sb.KindMap), tokK(sb.KindMapEnd), tokI(2))},
		pair{mak, mm(sb.Token{Kind: sb.KindBytes, Value: []byte("ab")}, tokI(2))},
		pair{mak, mm(tokK(sb.KindNaN), tokI(2))},
		pair{mak, mm(tokK(sb.KindObject), tokS("F"), tokK(sb.KindArray), tokK(sb.KindArrayEnd), tokK(sb.KindObjectEnd), tokI(2))},
		pair{mak, mm(tokK(sb.KindTuple), tokI(1), tokK(sb.KindTupleEnd), tokI(2))},
		pair{reflect.TypeOf(map[float64]int{}), mm(tokK(sb.KindNaN), tokI(1), tokK(sb.KindNaN), tokI(2))},
		pair{reflect.TypeOf(map[string]int{}), mm(tokS("a"), tokI(1), tokS("a"), tokI(2))},
		pair{reflect.TypeOf(map[string]int{}), mm(tokS("a"))},
		pair{reflect.TypeOf(map[[2]byte]int{}), mm(sb.Token{Kind: sb.KindBytes, Value: []byte("abc")}, tokI(2))},
	)
	// any targets at the edge of the schema-less domain
	at := anyType
	tuple51 := []sb.Token{tokK(sb.KindTuple)}
	for i := 0; i < 51; i++ {
		tuple51 = append(tuple51, tokI(i))
	}
	tuple51 = append(tuple51, tokK(sb.KindTupleEnd))
	tuple50 := append(append([]sb.Token{}, tuple51[:51]...), tokK(sb.KindTupleEnd))
	pairs = append(pairs,
		pair{at, obj(tokS("F"), tokK(sb.KindNil))},
		pair{at, obj(tokS("f"), tokI(1))},
		pair{at, obj(tokS("F"), tokI(1), tokS("F"), tokI(2))},
		pair{at, obj(tokS("F1_x"), tokI(1), tokS("G"), tokK(sb.KindArray), tokK(sb.KindNil), tokK(sb.KindArrayEnd))},
		pair{at, obj(tokS("type"), tokI(1))},
		pair{at, obj(tokS("9F"), tokI(1))},
		pair{at, tuple51}, pair{at, tuple50},
		pair{at, []sb.Token{tokK(sb.KindTuple), tokK(sb.KindNil), tokI(1), tokK(sb.KindTupleEnd)}},
		pair{at, []sb.Token{{Kind: sb.KindLiteral, Value: "12"}}},
		pair{at, []sb.Token{tokK(sb.KindMin)}}, pair{at, []sb.Token{tokK(sb.KindMax)}},
		pair{at, []sb.Token{{Kind: sb.KindRef, Value: []byte("x")}}},
		pair{at, []sb.Token{{Kind: sb.KindTypeName, Value: "no.such.Type"}, tokI(1)}},
		pair{at, []sb.Token{{Kind: sb.KindTypeName, Value: sb.TypeName(reflect.TypeOf(RegPoint{}))}, tokK(sb.KindNil)}},
		pair{at, []sb.Token{{Kind: sb.KindTypeName, Value: sb.TypeName(reflect.TypeOf(RegPoint{}))}}},
		pair{at, []sb.Token{{Kind: sb.KindTypeName, Value: sb.TypeName(reflect.TypeOf(RegInt(0)))}, tokI(1)}},
		pair{at, []sb.Token{{Kind: sb.KindTypeName, Value: sb.TypeName(reflect.TypeOf(RegInt(0)))}, {Kind: sb.KindInt32, Value: int32(7)}}},
	)
	// literals into every scalar kind
	lits := []string{"0", "-0", "1", "-1", "127", "128", "-128", "-129", "255", "256", "32767", "32768", "65535", "65536", "2147483647", "2147483648", "-2147483648", "4294967295", "4294967296",
		"9223372036854775807", "9223372036854775808", "-9223372036854775808", "18446744073709551615", "18446744073709551616", "1.5", "1e2", "1e40", "1e400", "-1.5e-3", "+5", "0x10", "1_000", "", " 1", "true", "false", "T", "t", "TRUE", "tRuE", "abc", "NaN", "Inf", "-Inf", "0.1", "3.4028235e38", "3.4028236e38", "1e-50"}
	for _, l := range lits {
		for _, st := range scalarTypes {
			pairs = append(pairs, pair{st, []sb.Token{{Kind: sb.KindLiteral, Value: l}}})
		}
		pairs = append(pairs, pair{reflect.TypeOf(MyInt8(0)), []sb.Token{{Kind: sb.KindLiteral, Value: l}}})
		pairs = append(pairs, pair{reflect.PtrTo(reflect.TypeOf(uint16(0))), []sb.Token{{Kind: sb.KindLiteral, Value: l}}})
	}
	pairs = append(pairs, pair{reflect.TypeOf([]int{}), []sb.Token{{Kind: sb.KindLiteral, Value: "1"}}}, pair{wu, []sb.Token{{Kind: sb.KindLiteral, Value: "1"}}})
	// tuples into typed funcs
	ft := reflect.TypeOf((func() (int, string))(nil))
	tup := func(items ...sb.Token) []sb.Token {
		return append(append([]sb.Token{tokK(sb.KindTuple)}, items...), tokK(sb.KindTupleEnd))
	}
	pairs = append(pairs, pair{ft, tup(tokI(1), tokS("a"))}, pair{ft, tup(tokI(1))}, pair{ft, tup()}, pair{ft, tup(tokI(1), tokS("a"), tokI(3))},
		pair{ft, tup(tokS("a"), tokI(1))}, pair{ft, tup(tokK(sb.KindNil), tokK(sb.KindNil))}, pair{ft, []sb.Token{tokK(sb.KindTuple), tokI(1)}}, pair{ft, []sb.Token{tokI(1)}})
	// time values
	tt := timeType
	good, _ := randGoValue(r, tt, 0).Interface().(interface{ MarshalBinary() ([]byte, error) }).MarshalBinary()
	pairs = append(pairs, pair{tt, []sb.Token{tokS(string(good))}}, pair{tt, []sb.Token{tokS("short")}}, pair{tt, []sb.Token{tokK(sb.KindNil)}}, pair{tt, []sb.Token{tokI(1)}}, pair{tt, nil},
		pair{reflect.PtrTo(tt), []sb.Token{tokK(sb.KindNil)}}, pair{reflect.PtrTo(tt), []sb.Token{tokS(string(good))}},
		pair{reflect.TypeOf(WithTime{}), obj(tokS("T"), tokK(sb.KindNil))}, pair{reflect.TypeOf(WithTime{}), obj(tokS("PT"), tokK(sb.KindNil), tokS("N"), tokI(3))})
	// byte arrays / slices, arrays
	pairs = append(pairs,
		pair{reflect.TypeOf([4]byte{}), []sb.Token{{Kind: sb.KindBytes, Value: []byte("ab")}}},
		pair{reflect.TypeOf([2]byte{}), []sb.Token{{Kind: sb.KindBytes, Value: []byte("abcd")}}},
		pair{reflect.TypeOf([2]byte{}), []sb.Token{tokK(sb.KindArray), {Kind: sb.KindUint8, Value: uint8(7)}, tokK(sb.KindArrayEnd)}},
		pair{reflect.TypeOf([]byte{}), []sb.Token{tokK(sb.KindArray), {Kind: sb.KindUint8, Value: uint8(7)}, {Kind: sb.KindUint8, Value: uint8(8)}, tokK(sb.KindArrayEnd)}},
		pair{reflect.TypeOf([]byte{}), []sb.Token{tokK(sb.KindArray), tokI(7), tokK(sb.KindArrayEnd)}},
		pair{reflect.TypeOf([2]int{}), []sb.Token{tokK(sb.KindArray), tokI(1), tokI(2), tokI(3), tokK(sb.KindArrayEnd)}},
		pair{reflect.TypeOf([2]int{}), []sb.Token{tokK(sb.KindArray), tokI(1), tokK(sb.KindArrayEnd)}},
		pair{reflect.TypeOf([2]int{}), []sb.Token{tokK(sb.KindArray), tokK(sb.KindNil), tokI(2), tokK(sb.KindArrayEnd)}},
		pair{reflect.TypeOf([0]int{}), []sb.Token{tokK(sb.KindArray), tokK(sb.KindArrayEnd)}},
		pair{reflect.TypeOf([0]int{}), []sb.Token{tokK(sb.KindArray)}},
		pair{reflect.TypeOf(MyBytes(nil)), []sb.Token{{Kind: sb.KindBytes, Value: []byte("ab")}}},
		pair{reflect.TypeOf([]MyInt8{}), []sb.Token{{Kind: sb.KindBytes, Value: []byte("ab")}}},
		pair{reflect.TypeOf([]Level{}), []sb.Token{{Kind: sb.KindBytes, Value: []byte("ab")}}},
		pair{reflect.TypeOf([3]Level{}), []sb.Token{{Kind: sb.KindBytes, Value: []byte("abc")}}},
		pair{reflect.TypeOf([3]Level{}), []sb.Token{{Kind: sb.KindBytes, Value: []byte("abcde")}}},
		pair{reflect.TypeOf(WithLevels{}), obj(tokS("Levels"), sb.Token{Kind: sb.KindBytes, Value: []byte("abc")})},
		pair{reflect.TypeOf(WithLevels{}), obj(tokS("Slice"), sb.Token{Kind: sb.KindBytes, Value: []byte("ab")}, tokS("Raw"), sb.Token{Kind: sb.KindBytes, Value: []byte("abc")})},
		pair{reflect.TypeOf([]MyUint8{}), []sb.Token{{Kind: sb.KindBytes, Value: []byte{}}}},
		pair{reflect.TypeOf(map[string][2]Level{}), mm(tokS("k"), sb.Token{Kind: sb.KindBytes, Value: []byte("ab")})},
	)
	// bytes-typed map keys of every length around the sizes an implementation might special-case
	for _, l := range []int{0, 1, 2, 7, 8, 9, 15, 16, 17, 19, 20, 21, 24, 31, 32, 33, 40, 64, 65} {
		k := make([]byte, l)
		for i := range k {
			k[i] = byte(i + 1)
		}
		pairs = append(pairs,
			pair{at, mm(sb.Token{Kind: sb.KindBytes, Value: k}, tokI(l))},
			pair{at, []sb.Token{tokK(sb.KindArray), tokK(sb.KindMap), {Kind: sb.KindBytes, Value: k}, tokK(sb.KindMap), {Kind: sb.KindBytes, Value: k}, tokS("v"), tokK(sb.KindMapEnd), tokK(sb.KindMapEnd), tokK(sb.KindArrayEnd)}})
	}
	// map keys that are NaN: as the NaN kind, and as float tokens whose PAYLOAD is a NaN (a marshaller never emits
	// those, bytes from elsewhere can carry them); a schema-less map rejects every one of them
	nanKeys := []sb.Token{tokK(sb.KindNaN)}
	for _, b := range []uint32{0x7fc00000, 0xffc00001, 0x7fffffff} /* quiet NaNs only: a signalling float32 NaN is quieted by the float64 conversions of reflect */ {
		nanKeys = append(nanKeys, sb.Token{Kind: sb.KindFloat32, Value: math.Float32frombits(b)})
	}
	for _, b := range []uint64{0x7ff8000000000001, 0xfff8000000000001, 0x7fffffffffffffff} {
		nanKeys = append(nanKeys, sb.Token{Kind: sb.KindFloat64, Value: math.Float64frombits(b)})
	}
	nNaNAny := 0
	for _, k := range nanKeys {
		pairs = append(pairs,
			pair{at, mm(k, tokI(1))},
			pair{at, mm(tokI(0), tokI(0), k, tokI(1))},
			pair{at, []sb.Token{tokK(sb.KindArray), tokK(sb.KindMap), k, tokS("v"), tokK(sb.KindMapEnd), tokK(sb.KindArrayEnd)}},
			pair{at, obj(tokS("F"), tokK(sb.KindMap), k, tokS("v"), tokK(sb.KindMapEnd))})
		nNaNAny += 4
		pairs = append(pairs,
			pair{reflect.TypeOf(map[float32]int{}), mm(k, tokI(1))},
			pair{reflect.TypeOf(map[float64]int{}), mm(k, tokI(1))},
			pair{reflect.TypeOf(map[any]int{}), mm(k, tokI(1))})
	}
	nanFrom := len(pairs) - 7*len(nanKeys)
	// the same field named twice: each occurrence is decoded on its own (a pointer field gets a fresh pointee)
	type pAB struct{ A, B int }
	type holdP struct {
		P *pAB
		S []int
		M map[string]int
		V pAB
	}
	hp := reflect.TypeOf(holdP{})
	pairs = append(pairs,
		pair{hp, obj(tokS("P"), tokK(sb.KindObject), tokS("A"), tokI(1), tokK(sb.KindObjectEnd), tokS("P"), tokK(sb.KindObject), tokS("B"), tokI(2), tokK(sb.KindObjectEnd))},
		pair{hp, obj(tokS("V"), tokK(sb.KindObject), tokS("A"), tokI(1), tokK(sb.KindObjectEnd), tokS("V"), tokK(sb.KindObject), tokS("B"), tokI(2), tokK(sb.KindObjectEnd))},
		pair{hp, obj(tokS("S"), tokK(sb.KindArray), tokI(1), tokI(2), tokK(sb.KindArrayEnd), tokS("S"), tokK(sb.KindArray), tokI(3), tokK(sb.KindArrayEnd))},
		pair{hp, obj(tokS("M"), mm(tokS("a"), tokI(1))[0], tokS("a"), tokI(1), tokK(sb.KindMapEnd), tokS("M"), tokK(sb.KindMap), tokS("b"), tokI(2), tokK(sb.KindMapEnd))},
		pair{hp, obj(tokS("P"), tokK(sb.KindObject), tokS("A"), tokI(1), tokK(sb.KindObjectEnd), tokS("P"), tokK(sb.KindNil))},
		pair{reflect.TypeOf([]*pAB{}), []sb.Token{tokK(sb.KindArray), tokK(sb.KindObject), tokS("A"), tokI(1), tokK(sb.KindObjectEnd), tokK(sb.KindNil), tokK(sb.KindObject), tokS("B"), tokI(2), tokK(sb.KindObjectEnd), tokK(sb.KindArrayEnd)}},
	)
	_ = nNaNAny
	for pi, p := range pairs {
		if usesEmbeddedOrRecursive(p.t) {
			continue
		}
		tyS := coqTy(p.t)
		desc := fmt.Sprintf("targeted: target=%v stream=[%s]", p.t, truncate(descTokens(p.ts), 300))
		back, eU := unmarshalInto(p.t, p.ts, nil)
		repU.Evaluations++
		repU.count("c05:targeted")
		switch classOf(eU) {
		case "EPanic":
			key := "unmarshal-panic"
			repU.violate("C05", key, fmt.Sprintf("Unmarshal panicked: %v", eU), desc)
		case "EDiverge":
			repU.violate("C05", "unmarshal-diverges", "step budget exceeded", desc)
		case "ENone":
		default:
			if !isUnmarshalError(eU) {
				repU.violate("C05", "not-an-unmarshal-error", fmt.Sprintf("rejected with an error that is not an UnmarshalError: %v", eU), desc)
			}
		}
		wU.add(fmt.Sprintf("UnmarshalCase %s %s %s %s %s %s %s", coqOpts(false, false, false), reg, tyS, "(zero "+tyS+")", coqTokens(p.ts), floatTable(p.ts), uobs(back, eU)), desc, true)
		tapOracle(repU, p.t, p.ts, back, eU, desc)
		if p.t == anyType && pi >= nanFrom && pi < nanFrom+7*len(nanKeys) && eU == nil {
			repU.violate("C11", "any-accepts-nan-key", fmt.Sprintf("a schema-less map with a NaN key was accepted and decoded to %v: the value cannot be marshalled again", safeFormat(back)), desc)
		}
		if p.t == anyType {
			// C11 on the canonical streams among the hand-made ones (in the domain, keys ascending): must be
			// accepted and lossless; the others are decided by the model (rejection with the stated error)
			// (hand-made streams with a type name are not canonical for the registered type in general -
			// [TypeName RegInt; Int 1] - so they are left to the model; registered names are exercised by the
			// streams marshalled from registered catalogue types)
			hasName := false
			for _, tk := range p.ts {
				hasName = hasName || tk.Kind == sb.KindTypeName
			}
			if asc, _ := mapKeysAscending(p.ts); asc && !hasName && inSchemalessDomain(p.ts) {
				anyOracle(repU, p.ts, "any: "+desc, true)
			}
		}
	}
}

// C11 (registered names resurrect values of exactly those types) over registration HISTORIES: a type
// whose name was already asked for, and an element type registered after its pointer type, must be
// registered like any other
func typedRegistrationOrder(repM, repU *Report) {
	base := reflect.TypeOf(RegNested{})
	ptrN := func(n int) reflect.Type {
		t := base
		for i := 0; i < n; i++ {
			t = reflect.PtrTo(t)
		}
		return t
	}
	check := func(t reflect.Type, history string) {
		desc := fmt.Sprintf("registration history: %s; type %v", history, t)
		v := reflect.New(t.Elem()) // a value of type t
		ts, err := marshalTokens(v.Interface(), nil)
		repM.Evaluations++
		want := refTypeName(t) // written from the naming rule, independent of the package's name cache
		if got := sb.TypeName(t); got != want {
			repM.violate("C08", "type-name-wrong", fmt.Sprintf("TypeName(%v) = %q, the naming rule gives %q", t, got, want), desc)
		}
		if err != nil || len(ts) == 0 || ts[0].Kind != sb.KindTypeName || ts[0].Value != want {
			repM.violate("C08", "registered-not-prefixed", fmt.Sprintf("a value of a registered type is marshalled without its type name %q: (%v) %s", want, err, descTokens(ts)), desc)
		}
		var x any
		e := guard(func() error {
			return copyBudget(tokensFrom([]sb.Token{{Kind: sb.KindTypeName, Value: want}, {Kind: sb.KindNil}}), sb.Unmarshal(&x))
		})
		repU.Evaluations++
		if e != nil || x == nil || reflect.TypeOf(x) != t {
			repU.violate("C11", "registered-name-not-resurrected", fmt.Sprintf("the type name of a registered type decodes into %T (%v), not into the registered type", x, e), desc)
		}
	}
	// 1. the name is asked for first
	t1 := ptrN(3)
	_ = sb.TypeName(t1)
	sb.Register(t1)
	check(t1, "TypeName(T) then Register(T)")
	// 2. pointer type first, then its element type
	t2 := ptrN(5)
	sb.Register(reflect.PtrTo(t2))
	sb.Register(t2)
	check(reflect.PtrTo(t2), "Register(*T) then Register(T): *T")
	check(t2, "Register(*T) then Register(T): T")
	// 3. a value marshalled (unregistered) before the registration
	t3 := ptrN(8)
	_, _ = marshalTokens(reflect.New(t3.Elem()).Interface(), nil)
	sb.Register(t3)
	check(t3, "Marshal(value of T) then Register(T)")
	// 3b. the name of the POINTER type asked for first (a name cache must not file it under the element type)
	t5 := ptrN(12)
	_ = sb.TypeName(reflect.PtrTo(t5))
	sb.Register(t5)
	check(t5, "TypeName(*T) then Register(T)")
	t6 := ptrN(15)
	sb.Register(reflect.PtrTo(t6))
	check(reflect.PtrTo(t6), "Register(*T) only: *T")
	if got, want := sb.TypeName(t6), refTypeName(t6); got != want {
		repM.violate("C08", "type-name-wrong", fmt.Sprintf("after Register(*T), TypeName(T) = %q, the naming rule gives %q", got, want), "registration history: Register(*T) then TypeName(T)")
	}
	// 4. registering twice
	t4 := ptrN(10)
	sb.Register(t4)
	sb.Register(t4)
	check(t4, "Register(T) twice")
}

// C05: object fields are matched by exported name - including the fields promoted from embedded structs
// (embedded fields are outside the Coq model of unmarshal: this is a Go-side oracle on hand-made pairs)
type embBase struct {
	ID  int
	Tag string
}
type EmbPub struct{ Code int16 }
type WithPromoted struct {
	embBase
	EmbPub
	Name string
}

func typedEmbedded(repU *Report) {
	obj := func(fields ...sb.Token) []sb.Token {
		return append(append([]sb.Token{tokK(sb.KindObject)}, fields...), tokK(sb.KindObjectEnd))
	}
	i16 := sb.Token{Kind: sb.KindInt16, Value: int16(3)}
	cases := []struct {
		ts   []sb.Token
		want *WithPromoted // nil: must be rejected
	}{
		{obj(tokS("ID"), tokI(7), tokS("Name"), tokS("foo")), &WithPromoted{embBase: embBase{ID: 7}, Name: "foo"}},
		{obj(tokS("Name"), tokS("foo"), tokS("Tag"), tokS("bar"), tokS("ID"), tokI(7)), &WithPromoted{embBase: embBase{ID: 7, Tag: "bar"}, Name: "foo"}},
		{obj(tokS("Code"), i16), &WithPromoted{EmbPub: EmbPub{Code: 3}}},
		{obj(tokS("Code"), i16, tokS("ID"), tokI(1), tokS("Nope"), tokI(5)), &WithPromoted{embBase: embBase{ID: 1}, EmbPub: EmbPub{Code: 3}}},
		{obj(tokS("EmbPub"), tokK(sb.KindObject), tokS("Code"), i16, tokK(sb.KindObjectEnd)), &WithPromoted{EmbPub: EmbPub{Code: 3}}},
		{obj(tokS("ID"), tokS("seven")), nil},
		{obj(tokS("Tag"), tokI(1)), nil},
		{obj(tokS("Code"), tokI(3)), nil},
	}
	for _, c := range cases {
		var got WithPromoted
		e := guard(func() error { return copyBudget(tokensFrom(c.ts), sb.Unmarshal(&got)) })
		repU.Evaluations++
		repU.count("c05:promoted-field")
		desc := fmt.Sprintf("promoted fields: target=main.WithPromoted stream=[%s]", descTokens(c.ts))
		switch {
		case classOf(e) == "EPanic" || classOf(e) == "EDiverge":
			repU.violate("C05", "unmarshal-panic", fmt.Sprintf("Unmarshal panicked: %v", e), desc)
		case c.want == nil && e == nil:
			repU.violate("C05", "mismatch-accepted", fmt.Sprintf("a value of the wrong kind for a promoted field was accepted: %+v", got), desc)
		case c.want == nil && !isUnmarshalError(e):
			repU.violate("C05", "not-an-unmarshal-error", fmt.Sprintf("%v", e), desc)
		case c.want != nil && e != nil:
			repU.violate("C05", "conforming-rejected", fmt.Sprintf("a conforming stream was rejected: %v", e), desc)
		case c.want != nil && got != *c.want:
			repU.violate("C05", "field-not-matched-by-name", fmt.Sprintf("got %+v, want %+v", got, *c.want), desc)
		}
	}
}

// fields promoted through embedded POINTERS: a nil embedded pointer on the way to the named field is
// allocated (as encoding/json does); one to an unexported struct type cannot be set and is an error, not a panic
type EmbPtrInner struct {
	X int
	S string
}
type embPtrHidden struct{ Y int }
type EmbPtrDeep struct{ *EmbPtrInner }
type WithEmbPtr struct {
	*EmbPtrInner
	*embPtrHidden
	Z int
}
type WithEmbPtrDeep struct {
	*EmbPtrDeep
	W int
}

func typedEmbeddedPtr(repU *Report) {
	obj := func(fields ...sb.Token) []sb.Token {
		return append(append([]sb.Token{tokK(sb.KindObject)}, fields...), tokK(sb.KindObjectEnd))
	}
	show := func(v any) string { b, _ := json.Marshal(v); return string(b) }
	type tc struct {
		name   string
		target func() any
		ts     []sb.Token
		want   string // JSON image of the expected target; "" = must be rejected with an unmarshal error
	}
	cases := []tc{
		{"nil embedded pointer is allocated", func() any { return &WithEmbPtr{} }, obj(tokS("X"), tokI(5)), `{"X":5,"S":"","Z":0}`},
		{"embedded pointer stays nil when no promoted field is named", func() any { return &WithEmbPtr{} }, obj(tokS("Z"), tokI(2)), `{"Z":2}`},
		{"non-nil embedded pointer is decoded in place", func() any { return &WithEmbPtr{EmbPtrInner: &EmbPtrInner{S: "keep"}} }, obj(tokS("X"), tokI(5)), `{"X":5,"S":"keep","Z":0}`},
		{"two promoted fields share the allocated struct", func() any { return &WithEmbPtr{} }, obj(tokS("S"), tokS("a"), tokS("Z"), tokI(1), tokS("X"), tokI(9)), `{"X":9,"S":"a","Z":1}`},
		{"embedded pointer to an unexported struct type", func() any { return &WithEmbPtr{} }, obj(tokS("Y"), tokI(1)), ""},
		{"wrong kind for a field promoted through a pointer", func() any { return &WithEmbPtr{} }, obj(tokS("X"), tokS("five")), ""},
		{"two levels of nil embedded pointers", func() any { return &WithEmbPtrDeep{} }, obj(tokS("W"), tokI(1), tokS("X"), tokI(7)), `{"X":7,"S":"","W":1}`},
		{"the embedded field named by its type", func() any { return &WithEmbPtr{} }, obj(tokS("EmbPtrInner"), tokK(sb.KindObject), tokS("X"), tokI(4), tokK(sb.KindObjectEnd)), `{"X":4,"S":"","Z":0}`},
	}
	for _, c := range cases {
		got := c.target()
		e := guard(func() error { return copyBudget(tokensFrom(c.ts), sb.Unmarshal(got)) })
		repU.Evaluations++
		repU.count("c05:promoted-through-pointer")
		desc := fmt.Sprintf("promoted through embedded pointer (%s): target=%T stream=[%s]", c.name, got, descTokens(c.ts))
		switch {
		case classOf(e) == "EPanic" || classOf(e) == "EDiverge":
			repU.violate("C05", "unmarshal-panic", fmt.Sprintf("Unmarshal panicked: %v", e), desc)
		case c.want == "" && e == nil:
			repU.violate("C05", "mismatch-accepted", fmt.Sprintf("accepted: %s", show(got)), desc)
		case c.want == "" && !isUnmarshalError(e):
			repU.violate("C05", "not-an-unmarshal-error", fmt.Sprintf("%v", e), desc)
		case c.want != "" && e != nil:
			repU.violate("C05", "conforming-rejected", fmt.Sprintf("a conforming stream was rejected: %v", e), desc)
		case c.want != "" && show(got) != c.want:
			repU.violate("C05", "field-not-matched-by-name", fmt.Sprintf("got %s, want %s", show(got), c.want), desc)
		}
	}
	// round trip of values with embedded pointers (C01): the embedded struct travels as a field named after its type
	for _, v := range []WithEmbPtr{{}, {EmbPtrInner: &EmbPtrInner{X: 1, S: "s"}, Z: 3}, {Z: -1}} {
		ts, e := marshalTokens(v, nil)
		repU.Evaluations++
		repU.count("c01:embedded-pointer-roundtrip")
		desc := fmt.Sprintf("round trip with an embedded pointer: value=%s", show(v))
		if e != nil {
			repU.violate("C01", "marshal-error", fmt.Sprintf("%v", e), desc)
			continue
		}
		var back WithEmbPtr
		e = guard(func() error { return copyBudget(tokensFrom(ts), sb.Unmarshal(&back)) })
		if e != nil {
			repU.violate("C01", "roundtrip-error", fmt.Sprintf("%v", e), desc)
		} else if show(back) != show(v) {
			repU.violate("C01", "roundtrip-tokens", fmt.Sprintf("came back as %s", show(back)), desc)
		}
	}
}

// fields promoted through embedded pointers, through the JSON front end, against encoding/json (C20)
func jsonEmbeddedPtr(repU *Report) {
	show := func(v any) string { b, _ := json.Marshal(v); return string(b) }
	for _, doc := range []string{`{"X":5,"Z":2}`, `{"Z":2}`, `{"S":"a","X":1}`, `{"W":3,"X":7}`, `{"X":1,"X":2}`, `{"X":null}`, `{"S":null,"Z":1}`, `{"X":null,"X":3}`, `{"W":null}`} {
		for _, mk := range []func() any{func() any { return &WithEmbPtr{} }, func() any { return &WithEmbPtrDeep{} }} {
			a, b := mk(), mk()
			e := guard(func() error { return copyBudget(sb.DecodeJson(strings.NewReader(doc), nil), sb.Unmarshal(a)) })
			je := json.Unmarshal([]byte(doc), b)
			repU.Evaluations++
			repU.count("c20:promoted-through-pointer")
			desc := fmt.Sprintf("json promoted through embedded pointer: target=%T doc=%s", a, doc)
			switch {
			case classOf(e) == "EPanic" || classOf(e) == "EDiverge":
				repU.violate("C20", "unmarshal-panic", fmt.Sprintf("Unmarshal panicked: %v", e), desc)
			case (e == nil) != (je == nil):
				repU.violate("C20", "differs-from-encoding-json", fmt.Sprintf("sb: %v, encoding/json: %v", e, je), desc)
			case e == nil && show(a) != show(b):
				repU.violate("C20", "differs-from-encoding-json", fmt.Sprintf("sb gives %s, encoding/json gives %s", show(a), show(b)), desc)
			}
		}
	}
}

// the naming rule of type_name.go, written independently: pointers prefix "*", defined types are
// pkgpath.Name (Name alone without a package path), anything else has no name
func refTypeName(t reflect.Type) string {
	if t.Kind() == reflect.Ptr {
		if e := refTypeName(t.Elem()); e != "" {
			return "*" + e
		}
		return ""
	}
	if t.Name() != "" {
		if t.PkgPath() != "" {
			return t.PkgPath() + "." + t.Name()
		}
		return t.Name()
	}
	return ""
}
