package main

import (
	"fmt"
	"math/rand"
	"reflect"

	"github.com/reusee/sb"
)

func tokS(s string) sb.Token { return sb.Token{Kind: sb.KindString, Value: s} }
func tokI(i int) sb.Token    { return sb.Token{Kind: sb.KindInt, Value: i} }
func tokK(k sb.Kind) sb.Token {
	return sb.Token{Kind: k}
}

// a registered type with Binary marshalling round-trips at every position (Go oracle; not in the model's universe)
func typedRegisteredMarshaler(repM, repU *Report) {
	type holder struct {
		S  Stamp
		P  *Stamp
		L  []Stamp
		M  map[string]Stamp
		A  any
		PN *Stamp
	}
	// (an interface position holding a Stamp comes back as the string it marshals to: equivalent by
	// the canonical stream of interface positions, which is what equivValues compares)
	v := holder{S: Stamp{1}, P: &Stamp{2}, L: []Stamp{{3}, {4}}, M: map[string]Stamp{"k": {5}}, A: Stamp{6}}
	ts, err := marshalTokens(v, nil)
	repU.Evaluations++
	desc := "registered binary marshaler: " + truncate(descTokens(ts), 300)
	if err != nil {
		repU.violate("C01", "marshal-error", fmt.Sprintf("%v", err), desc)
		return
	}
	// C08: the stream of a registered marshaler type does not depend on the level of indirection
	{
		x := Stamp{6}
		px := &x
		var ax any = x
		var apx any = &x
		direct, _ := marshalTokens(x, nil)
		for _, w := range []any{&x, &px, &ax, &apx, []any{x}, []*Stamp{&x}} {
			got, e := marshalTokens(w, nil)
			repM.Evaluations++
			if rv := reflect.ValueOf(w); rv.Kind() == reflect.Slice && len(got) >= 2 {
				got = got[1 : len(got)-1]
			}
			if e != nil || !tokensExactEq(direct, got) {
				repM.violate("C08", "indirection-changes-stream", fmt.Sprintf("a registered type with MarshalBinary marshals to %s directly and to %s as %T", descTokens(direct), descTokens(got), w), "registered binary marshaler Stamp{6}")
			}
		}
	}
	var back holder
	e := guard(func() error { return copyBudget(tokensFrom(ts), sb.Unmarshal(&back)) })
	if e != nil || !equivValues(reflect.ValueOf(v), reflect.ValueOf(back)) {
		repU.violate("C01", "roundtrip-error", fmt.Sprintf("a registered type with MarshalBinary does not round-trip: %v, got %+v", e, back), desc)
	}
}

// maps whose key streams have different token counts (the order is by the first differing token, not by length)
func typedKeyOrder(repM *Report, wM *CaseWriter, r *rand.Rand) {
	s1, s2, s3 := []int{5}, []int{1, 2, 3}, []int{}
	vals := []any{
		map[any]int{[3]int{1, 2, 3}: 1, [1]int{9}: 2, uintptr(5): 3, "s": 4, [2]int8{0, 1}: 5},
		map[*[]int]bool{&s1: true, &s2: false, &s3: true},
		map[[2]any]int{{1, "a"}: 1, {[2]int{1, 2}, 0}: 2, {nil, [3]bool{true, false, true}}: 3},
		map[any]string{struct{ A, B int }{1, 2}: "x", struct{ A int }{9}: "y", int8(3): "z"},
		map[any]any{[2]string{"b", ""}: nil, [1]string{"c"}: 1, "a": [2]int{1, 2}},
	}
	for _, x := range vals {
		v := reflect.ValueOf(x)
		ts, err := marshalTokens(x, nil)
		repM.Evaluations++
		desc := fmt.Sprintf("key-order: type=%v", v.Type())
		if err != nil {
			repM.violate("C08", "marshal-error", fmt.Sprintf("%v", err), desc)
			continue
		}
		if ok, msg := mapKeysAscending(ts); !ok {
			repM.violate("C08", "map-keys-not-ascending", msg, desc)
		}
		rb := rebuildMaps(r, v)
		ts2, e2 := marshalTokens(rb.Interface(), nil)
		if e2 != nil || !tokensExactEq(ts, ts2) {
			repM.violate("C08", "map-history-dependent", "the same content built through a different insertion/deletion history marshals differently", desc)
		}
		wM.add(fmt.Sprintf("MarshalCase %s %s %s %s", coqOpts(false, false, false), coqTy(v.Type()), coqGval(v), mobs(ts, err)), desc, true)
	}
}

// hand-made (stream, target) pairs on the edges of the acceptance relation (C05)
func typedTargeted(repU *Report, wU *CaseWriter, r *rand.Rand) {
	reg := coqRegistry()
	type pair struct {
		t  reflect.Type
		ts []sb.Token
	}
	var pairs []pair
	obj := func(fields ...sb.Token) []sb.Token {
		return append(append([]sb.Token{tokK(sb.KindObject)}, fields...), tokK(sb.KindObjectEnd))
	}
	wu := reflect.TypeOf(WithUnexported{})
	// objects naming exported, unexported and unknown fields of a struct with unexported fields
	pairs = append(pairs,
		pair{wu, obj(tokS("A"), tokI(1))},
		pair{wu, obj(tokS("hidden"), tokS("x"))},
		pair{wu, obj(tokS("secret"), tokK(sb.KindNil))},
		pair{wu, obj(tokS("secret"), tokI(5))},
		pair{wu, obj(tokS("A"), tokI(1), tokS("hidden"), tokS("x"), tokS("C"), sb.Token{Kind: sb.KindBool, Value: true})},
		pair{wu, obj(tokS("Unknown"), tokK(sb.KindArray), tokI(1), tokK(sb.KindArrayEnd), tokS("A"), tokI(2))},
		pair{wu, obj(tokS("a"), tokI(1))}, // case differs: unknown
		pair{wu, obj(tokS(""), tokI(1))},
		pair{wu, obj(tokK(sb.KindNil), tokI(1))},
		pair{wu, obj(tokI(1), tokI(1))},
		pair{wu, obj(tokS("A"))},
		pair{wu, obj(tokS("A"), tokK(sb.KindObjectEnd))},
	)
	// map targets with interface keys and composite / odd key tokens
	mak := reflect.TypeOf(map[any]int{})
	mm := func(items ...sb.Token) []sb.Token {
		return append(append([]sb.Token{tokK(sb.KindMap)}, items...), tokK(sb.KindMapEnd))
	}
	pairs = append(pairs,
		pair{mak, mm(tokI(1), tokI(2))},
		pair{mak, mm(tokK(sb.KindNil), tokI(2))},
		pair{mak, mm(tokK(sb.KindArray), tokI(1), tokK(sb.KindArrayEnd), tokI(2))},
		pair{mak, mm(tokK(sb.KindMap), tokK(sb.KindMapEnd), tokI(2))},
		pair{mak, mm(sb.Token{Kind: sb.KindBytes, Value: []byte("ab")}, tokI(2))},
		pair{mak, mm(tokK(sb.KindNaN), tokI(2))},
		pair{mak, mm(tokK(sb.KindObject), tokS("F"), tokK(sb.KindArray), tokK(sb.KindArrayEnd), tokK(sb.KindObjectEnd), tokI(2))},
		pair{mak, mm(tokK(sb.KindTuple), tokI(1), tokK(sb.KindTupleEnd), tokI(2))},
		pair{reflect.TypeOf(map[float64]int{}), mm(tokK(sb.KindNaN), tokI(1), tokK(sb.KindNaN), tokI(2))},
		pair{reflect.TypeOf(map[string]int{}), mm(tokS("a"), tokI(1), tokS("a"), tokI(2))},
		pair{reflect.TypeOf(map[string]int{}), mm(tokS("a"))},
		pair{reflect.TypeOf(map[[2]byte]int{}), mm(sb.Token{Kind: sb.KindBytes, Value: []byte("abc")}, tokI(2))},
	)
	// any targets at the edge of the schema-less domain
	at := anyType
	tuple51 := []sb.Token{tokK(sb.KindTuple)}
	for i := 0; i < 51; i++ {
		tuple51 = append(tuple51, tokI(i))
	}
	tuple51 = append(tuple51, tokK(sb.KindTupleEnd))
	tuple50 := append(append([]sb.Token{}, tuple51[:51]...), tokK(sb.KindTupleEnd))
	pairs = append(pairs,
		pair{at, obj(tokS("F"), tokK(sb.KindNil))},
		pair{at, obj(tokS("f"), tokI(1))},
		pair{at, obj(tokS("F"), tokI(1), tokS("F"), tokI(2))},
		pair{at, obj(tokS("F1_x"), tokI(1), tokS("G"), tokK(sb.KindArray), tokK(sb.KindNil), tokK(sb.KindArrayEnd))},
		pair{at, obj(tokS("type"), tokI(1))},
		pair{at, obj(tokS("9F"), tokI(1))},
		pair{at, tuple51}, pair{at, tuple50},
		pair{at, []sb.Token{tokK(sb.KindTuple), tokK(sb.KindNil), tokI(1), tokK(sb.KindTupleEnd)}},
		pair{at, []sb.Token{{Kind: sb.KindLiteral, Value: "12"}}},
		pair{at, []sb.Token{tokK(sb.KindMin)}}, pair{at, []sb.Token{tokK(sb.KindMax)}},
		pair{at, []sb.Token{{Kind: sb.KindRef, Value: []byte("x")}}},
		pair{at, []sb.Token{{Kind: sb.KindTypeName, Value: "no.such.Type"}, tokI(1)}},
		pair{at, []sb.Token{{Kind: sb.KindTypeName, Value: sb.TypeName(reflect.TypeOf(RegPoint{}))}, tokK(sb.KindNil)}},
		pair{at, []sb.Token{{Kind: sb.KindTypeName, Value: sb.TypeName(reflect.TypeOf(RegPoint{}))}}},
		pair{at, []sb.Token{{Kind: sb.KindTypeName, Value: sb.TypeName(reflect.TypeOf(RegInt(0)))}, tokI(1)}},
		pair{at, []sb.Token{{Kind: sb.KindTypeName, Value: sb.TypeName(reflect.TypeOf(RegInt(0)))}, {Kind: sb.KindInt32, Value: int32(7)}}},
	)
	// literals into every scalar kind
	lits := []string{"0", "-0", "1", "-1", "127", "128", "-128", "-129", "255", "256", "32767", "32768", "65535", "65536", "2147483647", "2147483648", "-2147483648", "4294967295", "4294967296",
		"9223372036854775807", "9223372036854775808", "-9223372036854775808", "18446744073709551615", "18446744073709551616", "1.5", "1e2", "1e40", "1e400", "-1.5e-3", "+5", "0x10", "1_000", "", " 1", "true", "false", "T", "t", "TRUE", "tRuE", "abc", "NaN", "Inf", "-Inf", "0.1", "3.4028235e38", "3.4028236e38", "1e-50"}
	for _, l := range lits {
		for _, st := range scalarTypes {
			pairs = append(pairs, pair{st, []sb.Token{{Kind: sb.KindLiteral, Value: l}}})
		}
		pairs = append(pairs, pair{reflect.TypeOf(MyInt8(0)), []sb.Token{{Kind: sb.KindLiteral, Value: l}}})
		pairs = append(pairs, pair{reflect.PtrTo(reflect.TypeOf(uint16(0))), []sb.Token{{Kind: sb.KindLiteral, Value: l}}})
	}
	pairs = append(pairs, pair{reflect.TypeOf([]int{}), []sb.Token{{Kind: sb.KindLiteral, Value: "1"}}}, pair{wu, []sb.Token{{Kind: sb.KindLiteral, Value: "1"}}})
	// tuples into typed funcs
	ft := reflect.TypeOf((func() (int, string))(nil))
	tup := func(items ...sb.Token) []sb.Token {
		return append(append([]sb.Token{tokK(sb.KindTuple)}, items...), tokK(sb.KindTupleEnd))
	}
	pairs = append(pairs, pair{ft, tup(tokI(1), tokS("a"))}, pair{ft, tup(tokI(1))}, pair{ft, tup()}, pair{ft, tup(tokI(1), tokS("a"), tokI(3))},
		pair{ft, tup(tokS("a"), tokI(1))}, pair{ft, tup(tokK(sb.KindNil), tokK(sb.KindNil))}, pair{ft, []sb.Token{tokK(sb.KindTuple), tokI(1)}}, pair{ft, []sb.Token{tokI(1)}})
	// time values
	tt := timeType
	good, _ := randGoValue(r, tt, 0).Interface().(interface{ MarshalBinary() ([]byte, error) }).MarshalBinary()
	pairs = append(pairs, pair{tt, []sb.Token{tokS(string(good))}}, pair{tt, []sb.Token{tokS("short")}}, pair{tt, []sb.Token{tokK(sb.KindNil)}}, pair{tt, []sb.Token{tokI(1)}}, pair{tt, nil},
		pair{reflect.PtrTo(tt), []sb.Token{tokK(sb.KindNil)}}, pair{reflect.PtrTo(tt), []sb.Token{tokS(string(good))}},
		pair{reflect.TypeOf(WithTime{}), obj(tokS("T"), tokK(sb.KindNil))}, pair{reflect.TypeOf(WithTime{}), obj(tokS("PT"), tokK(sb.KindNil), tokS("N"), tokI(3))})
	// byte arrays / slices, arrays
	pairs = append(pairs,
		pair{reflect.TypeOf([4]byte{}), []sb.Token{{Kind: sb.KindBytes, Value: []byte("ab")}}},
		pair{reflect.TypeOf([2]byte{}), []sb.Token{{Kind: sb.KindBytes, Value: []byte("abcd")}}},
		pair{reflect.TypeOf([2]byte{}), []sb.Token{tokK(sb.KindArray), {Kind: sb.KindUint8, Value: uint8(7)}, tokK(sb.KindArrayEnd)}},
		pair{reflect.TypeOf([]byte{}), []sb.Token{tokK(sb.KindArray), {Kind: sb.KindUint8, Value: uint8(7)}, {Kind: sb.KindUint8, Value: uint8(8)}, tokK(sb.KindArrayEnd)}},
		pair{reflect.TypeOf([]byte{}), []sb.Token{tokK(sb.KindArray), tokI(7), tokK(sb.KindArrayEnd)}},
		pair{reflect.TypeOf([2]int{}), []sb.Token{tokK(sb.KindArray), tokI(1), tokI(2), tokI(3), tokK(sb.KindArrayEnd)}},
		pair{reflect.TypeOf([2]int{}), []sb.Token{tokK(sb.KindArray), tokI(1), tokK(sb.KindArrayEnd)}},
		pair{reflect.TypeOf([2]int{}), []sb.Token{tokK(sb.KindArray), tokK(sb.KindNil), tokI(2), tokK(sb.KindArrayEnd)}},
		pair{reflect.TypeOf([0]int{}), []sb.Token{tokK(sb.KindArray), tokK(sb.KindArrayEnd)}},
		pair{reflect.TypeOf([0]int{}), []sb.Token{tokK(sb.KindArray)}},
		pair{reflect.TypeOf(MyBytes(nil)), []sb.Token{{Kind: sb.KindBytes, Value: []byte("ab")}}},
		pair{reflect.TypeOf([]MyInt8{}), []sb.Token{{Kind: sb.KindBytes, Value: []byte("ab")}}},
	)
	for _, p := range pairs {
		if usesEmbeddedOrRecursive(p.t) {
			continue
		}
		tyS := coqTy(p.t)
		desc := fmt.Sprintf("targeted: target=%v stream=[%s]", p.t, truncate(descTokens(p.ts), 300))
		back, eU := unmarshalInto(p.t, p.ts, nil)
		repU.Evaluations++
		repU.count("c05:targeted")
		switch classOf(eU) {
		case "EPanic":
			key := "unmarshal-panic"
			repU.violate("C05", key, fmt.Sprintf("Unmarshal panicked: %v", eU), desc)
		case "EDiverge":
			repU.violate("C05", "unmarshal-diverges", "step budget exceeded", desc)
		case "ENone":
		default:
			if !isUnmarshalError(eU) {
				repU.violate("C05", "not-an-unmarshal-error", fmt.Sprintf("rejected with an error that is not an UnmarshalError: %v", eU), desc)
			}
		}
		wU.add(fmt.Sprintf("UnmarshalCase %s %s %s %s %s %s %s", coqOpts(false, false, false), reg, tyS, "(zero "+tyS+")", coqTokens(p.ts), floatTable(p.ts), uobs(back, eU)), desc, true)
		if p.t == anyType {
			// C11 on the canonical streams among the hand-made ones (in the domain, keys ascending): must be
			// accepted and lossless; the others are decided by the model (rejection with the stated error)
			// (hand-made streams with a type name are not canonical for the registered type in general -
			// [TypeName RegInt; Int 1] - so they are left to the model; registered names are exercised by the
			// streams marshalled from registered catalogue types)
			hasName := false
			for _, tk := range p.ts {
				hasName = hasName || tk.Kind == sb.KindTypeName
			}
			if asc, _ := mapKeysAscending(p.ts); asc && !hasName && inSchemalessDomain(p.ts) {
				anyOracle(repU, p.ts, "any: "+desc, true)
			}
		}
	}
}
