package main

import (
	"bytes"
	"fmt"
	"io"
	"math"
	"math/rand"
	"reflect"

	"github.com/reusee/sb"
)

// ---------------------------------------------------------------------------
// writer flavours
// ---------------------------------------------------------------------------

type countingWriter struct {
	buf    bytes.Buffer
	calls  int
	failAt int // 1-based call index that fails; 0 = never
}

func (w *countingWriter) Write(p []byte) (int, error) {
	w.calls++
	if w.failAt != 0 && w.calls >= w.failAt {
		return 0, errInjected
	}
	return w.buf.Write(p)
}

type plainWriter struct{ w *countingWriter }

func (p plainWriter) Write(b []byte) (int, error) { return p.w.Write(b) }

type byteWriter struct{ w *countingWriter }

func (p byteWriter) Write(b []byte) (int, error) { return p.w.Write(b) }
func (p byteWriter) WriteByte(c byte) error {
	_, err := p.w.Write([]byte{c})
	return err
}

func mkWriter(flavour int, failAt int) (io.Writer, *countingWriter) {
	cw := &countingWriter{failAt: failAt}
	if flavour == 0 {
		return plainWriter{cw}, cw
	}
	return byteWriter{cw}, cw
}

var writerFlavours = []string{"io.Writer", "io.ByteWriter"}

// ---------------------------------------------------------------------------
// reader flavours
// ---------------------------------------------------------------------------

type baseReader struct {
	data    []byte
	pos     int
	fault   bool // end with errInjected instead of io.EOF
	mode    int  // 0 greedy, 1 one byte per Read, 2 random chunks (with zero-length reads), 3 data+EOF in one call
	r       *rand.Rand
	handed  int
	endSeen int
	wrapEOF bool // the end of the input is reported as an error that wraps io.EOF
}

func (b *baseReader) endErr() error {
	b.endSeen++
	if b.fault {
		return errInjected
	}
	if b.wrapEOF {
		return fmt.Errorf("verif: connection closed: %w", io.EOF)
	}
	return io.EOF
}

func (b *baseReader) Read(p []byte) (int, error) {
	if len(p) == 0 {
		return 0, nil
	}
	rem := len(b.data) - b.pos
	if rem == 0 {
		return 0, b.endErr()
	}
	n := len(p)
	if n > rem {
		n = rem
	}
	switch b.mode {
	case 1:
		n = 1
	case 2:
		n = b.r.Intn(n + 1) // may be 0
	}
	copy(p, b.data[b.pos:b.pos+n])
	b.pos += n
	b.handed += n
	if b.mode == 3 && b.pos == len(b.data) && !b.fault {
		// data and io.EOF in one call (an injected error is always reported by a call of its own)
		return n, b.endErr()
	}
	return n, nil
}

type byteReaderFlavour struct{ *baseReader }

func (b byteReaderFlavour) ReadByte() (byte, error) {
	if b.pos >= len(b.data) {
		return 0, b.endErr()
	}
	c := b.data[b.pos]
	b.pos++
	b.handed++
	return c, nil
}

// a reader whose Len() reports only what is buffered right now (a receive queue), not what will arrive
type lenReaderFlavour struct{ b *baseReader }

func (p lenReaderFlavour) Read(q []byte) (int, error) { return p.b.Read(q) }
func (p lenReaderFlavour) Len() int {
	rem := len(p.b.data) - p.b.pos
	if rem > 3 {
		return 3
	}
	return rem
}

type plainReaderFlavour struct{ b *baseReader }

func (p plainReaderFlavour) Read(q []byte) (int, error) { return p.b.Read(q) }

var readerFlavours = []string{"io.Reader", "io.ByteReader", "1-byte reads", "random chunks", "data+EOF", "chunks with Len() = buffered now", "io.ByteReader whose end error wraps io.EOF"}

func mkReader(flavour int, data []byte, fault bool, r *rand.Rand) (io.Reader, *baseReader) {
	b := &baseReader{data: data, fault: fault, r: r}
	switch flavour {
	case 0:
		return plainReaderFlavour{b}, b
	case 1:
		return byteReaderFlavour{b}, b
	case 2:
		b.mode = 1
	case 3:
		b.mode = 2
	case 4:
		b.mode = 3
	case 5:
		b.mode = 2
		return lenReaderFlavour{b}, b
	case 6:
		b.wrapEOF = true
		return byteReaderFlavour{b}, b
	}
	return plainReaderFlavour{b}, b
}

// ---------------------------------------------------------------------------
// implementation runners
// ---------------------------------------------------------------------------

type encObs struct {
	bytes []byte
	err   error
	calls int
}

func runEncode(ts []sb.Token, flavour, failAt int) encObs {
	w, cw := mkWriter(flavour, failAt)
	err := guard(func() error {
		return sb.Copy(tokensFrom(ts), sb.Encode(w))
	})
	return encObs{cw.buf.Bytes(), err, cw.calls}
}

func runEncodedLen(ts []sb.Token) (int, error) {
	var n int
	err := guard(func() error {
		return sb.Copy(tokensFrom(ts), sb.EncodedLen(&n, nil))
	})
	return n, err
}

type decObs struct {
	toks     []sb.Token
	err      error
	off      int64
	hasOff   bool
	handed   int   // bytes the reader handed out in total
	perToken []int // bytes handed out after each delivered token
}

func runDecode(data []byte, cmp bool, flavour int, fault bool, r *rand.Rand) decObs {
	rd, base := mkReader(flavour, data, fault, r)
	var o decObs
	o.err = guard(func() error {
		var s sb.Stream
		if cmp {
			s = sb.DecodeForCompare(rd)
		} else {
			s = sb.Decode(rd)
		}
		for i := 0; ; i++ {
			var t sb.Token
			if err := s.Next(&t); err != nil {
				return err
			}
			if t.Invalid() {
				return nil
			}
			o.toks = append(o.toks, t)
			o.perToken = append(o.perToken, base.handed)
			if i > 10_000_000 {
				return errDiverge
			}
		}
	})
	o.handed = base.handed
	if o.err != nil {
		o.off, o.hasOff = offsetOf(o.err)
	}
	return o
}

// a decoder that has reported an error does not come back to life: pulling it again yields no token
func decodeStaysFailed(rep *Report, data []byte, cmp bool, desc string) {
	var s sb.Stream
	if cmp {
		s = sb.DecodeForCompare(bytes.NewReader(data))
	} else {
		s = sb.Decode(bytes.NewReader(data))
	}
	var firstErr error
	n, after := 0, 0
	_ = guard(func() error {
		for i := 0; i < 100000; i++ {
			var t sb.Token
			err := s.Next(&t)
			if err != nil && firstErr == nil {
				firstErr = err
				continue
			}
			if firstErr != nil {
				if t.Valid() {
					after++
				}
				if i > n+4 {
					return nil
				}
				continue
			}
			if t.Invalid() {
				return nil
			}
			n++
		}
		return nil
	})
	rep.Evaluations++
	if firstErr != nil && after > 0 {
		what := fmt.Sprintf("after the decode error %v (following %d tokens) further pulls of the same stream delivered %d more tokens", firstErr, n, after)
		rep.violate("C04", "decode-continues-after-error", what, desc)
		rep.violate("C15", "decode-continues-after-error", what, desc)
	}
}

func tokenExactEq(a, b sb.Token) bool {
	if a.Kind != b.Kind {
		return false
	}
	if reflect.TypeOf(a.Value) != reflect.TypeOf(b.Value) {
		return false
	}
	switch x := a.Value.(type) {
	case float32:
		return math.Float32bits(x) == math.Float32bits(b.Value.(float32))
	case float64:
		return math.Float64bits(x) == math.Float64bits(b.Value.(float64))
	case []byte:
		return bytes.Equal(x, b.Value.([]byte))
	default:
		return a.Value == b.Value
	}
}

func tokensExactEq(a, b []sb.Token) bool {
	if len(a) != len(b) {
		return false
	}
	for i := range a {
		if !tokenExactEq(a[i], b[i]) {
			return false
		}
	}
	return true
}

func sameDecObs(a, b decObs) bool {
	return tokensExactEq(a.toks, b.toks) && classOf(a.err) == classOf(b.err) && a.off == b.off && a.hasOff == b.hasOff
}

// ---------------------------------------------------------------------------
// the codec family
// ---------------------------------------------------------------------------

func decCaseTerm(cmp bool, maxlen uint64, fault bool, input []byte, o decObs) string {
	return fmt.Sprintf("DecCase %s %d %s %s %s %s %d",
		coqBool(cmp), maxlen, coqBool(fault), coqRLE(input), coqTokens(o.toks), classOf(o.err), o.off)
}

func famCodec(dir string, seed int64, tier string) {
	thorough := tier == "thorough"
	repEnc := newReport("codec_enc", seed, tier)
	repEnc.Rule = "token sequences over the 31 encodable kinds: every boundary token alone, boundary tokens in pairs around the 127/128 and uvarint boundaries, random sequences; distinct by case text; non-trivial = at least one token"
	repWf := newReport("codec_wfault", seed, tier)
	repWf.Rule = "(token sequence, failing write-call index k) for every k up to the number of calls + 1, both writer flavours; non-trivial = the fault actually fires"
	repDec := newReport("codec_dec", seed, tier)
	repDec.Rule = "byte strings: valid encodings, every truncation point, single-byte mutations, exhaustive short strings, random strings biased to kind/prefix bytes; x decoder {plain, compare} x limit x reader ending {EOF, injected error}; 5 reader flavours must agree; non-trivial = input not empty"
	wEnc := newCaseWriter(dir, "codec_enc", "Corr_codec", "enc_case", "check_enc", 400, repEnc)
	wWf := newCaseWriter(dir, "codec_wfault", "Corr_codec", "wf_case", "check_wf", 600, repWf)
	wDec := newCaseWriter(dir, "codec_dec", "Corr_codec", "dec_case", "check_dec", 500, repDec)

	r := newRand(seed, "codec")
	sb.MaxDecodeStringLength = 4 * 1024 * 1024 * 1024

	// ---- token sequences ----
	lens := append([]int{}, lenBoundQuick...)
	lens = append(lens, lenBoundBig...)
	if thorough {
		lens = append(lens, 1<<21)
	}
	var seqs [][]sb.Token
	bt := boundaryTokens(r, lens)
	for _, t := range bt {
		seqs = append(seqs, []sb.Token{t})
	}
	seqs = append(seqs, nil) // the empty sequence
	// payloads of EQUAL long length with fixed-width tokens between them (anything an encoder might remember from
	// one length prefix to the next lives in the scratch buffer the fixed-width tokens are written through)
	for _, n := range []int{127, 128, 200, 300, 16384, 70000} {
		mkS := func(c byte) sb.Token { return sb.Token{Kind: sb.KindString, Value: string(bytes.Repeat([]byte{c}, n))} }
		mkB := func(c byte) sb.Token { return sb.Token{Kind: sb.KindBytes, Value: bytes.Repeat([]byte{c}, n)} }
		seqs = append(seqs,
			[]sb.Token{mkS('a'), tokI(7), mkS('b')},
			[]sb.Token{mkB('a'), {Kind: sb.KindFloat64, Value: 1.5}, mkB('b'), {Kind: sb.KindUint16, Value: uint16(515)}, mkB('c')},
			[]sb.Token{mkS('a'), {Kind: sb.KindUint32, Value: uint32(0xdeadbeef)}, mkB('b'), {Kind: sb.KindInt64, Value: int64(-2)}, mkS('c'), mkS('d')},
			[]sb.Token{{Kind: sb.KindTypeName, Value: string(bytes.Repeat([]byte{'t'}, n))}, {Kind: sb.KindInt16, Value: int16(-3)}, {Kind: sb.KindLiteral, Value: string(bytes.Repeat([]byte{'9'}, n))}, {Kind: sb.KindPointer, Value: uintptr(77)}, {Kind: sb.KindRef, Value: bytes.Repeat([]byte{'r'}, n)}})
	}
	nrand := 300
	if thorough {
		nrand = 6000
	}
	for i := 0; i < nrand; i++ {
		seqs = append(seqs, randTokens(r, 12))
	}
	// consecutive values on one reader: boundary tokens back to back
	for i := 0; i < nrand/3; i++ {
		a, b, c := bt[r.Intn(len(bt))], bt[r.Intn(len(bt))], bt[r.Intn(len(bt))]
		if sizeHint(a)+sizeHint(b)+sizeHint(c) < 2000 {
			seqs = append(seqs, []sb.Token{a, b, c})
		}
	}

	type validEnc struct {
		ts  []sb.Token
		enc []byte
	}
	var valids []validEnc

	for _, ts := range seqs {
		desc := descTokens(ts)
		for _, t := range ts {
			repEnc.count("kind:" + kindClass(t.Kind))
		}
		repEnc.count(fmt.Sprintf("len:%d", minInt(len(ts), 13)))
		o0 := runEncode(ts, 0, 0)
		o1 := runEncode(ts, 1, 0)
		repEnc.Evaluations += 2
		if o0.err != nil || o1.err != nil {
			repEnc.violate("C02", "encode-error", fmt.Sprintf("Encode failed on a well-formed sequence: %v / %v", o0.err, o1.err), desc)
			continue
		}
		if !bytes.Equal(o0.bytes, o1.bytes) {
			repEnc.violate("C03", "writer-flavour-dependent", "io.Writer and io.ByteWriter received different bytes", desc)
		}
		if o0.calls != o1.calls {
			repEnc.count("writer-call-count-differs") // not a property, only recorded
		}
		n, err := runEncodedLen(ts)
		repEnc.Evaluations++
		if err != nil || n != len(o0.bytes) {
			repEnc.violate("C02", "encoded-len", fmt.Sprintf("EncodedLen=%d (err %v) but %d bytes were written", n, err, len(o0.bytes)), desc)
		}
		// caller-supplied scratch buffers (EncodeBuffer): an 8-byte window of a larger, dirty buffer and a
		// shared one must give the same bytes as Encode's private scratch
		for si, scratch := range scratchBuffers() {
			w, cw := mkWriter(si%2, 0)
			e := guard(func() error { return sb.Copy(tokensFrom(ts), sb.EncodeBuffer(w, scratch, nil)) })
			repEnc.Evaluations++
			if e != nil || !bytes.Equal(cw.buf.Bytes(), o0.bytes) {
				repEnc.violate("C03", "scratch-buffer-dependent", fmt.Sprintf("EncodeBuffer with scratch %d (len %d cap %d) wrote %d bytes (%v), Encode wrote %d", si, len(scratch), cap(scratch), cw.buf.Len(), e, len(o0.bytes)), desc)
				break
			}
		}
		// a second run must give the same bytes (purity)
		o2 := runEncode(ts, 0, 0)
		if !bytes.Equal(o0.bytes, o2.bytes) {
			repEnc.violate("C03", "encode-not-deterministic", "two runs produced different bytes", desc)
		}
		wEnc.add(fmt.Sprintf("EncCase %s %s %d", coqTokens(ts), coqRLE(o0.bytes), n), desc, len(ts) > 0)
		valids = append(valids, validEnc{ts, o0.bytes})
		// the encoder writes as it goes, and a decoder may be set up on a buffer that is still being written
		apiIncrementalEncode(repEnc, ts, o0.bytes, desc)
		apiHandDrivenSinks(repEnc, ts, o0.bytes, desc)
		if len(o0.bytes) < 200000 {
			apiInterleavedCodec(repDec, ts, desc)
		}

		// decode with every reader flavour: token-exact round trip, exact consumption
		var first decObs
		for fl := range readerFlavours {
			o := runDecode(o0.bytes, false, fl, false, r)
			repDec.Evaluations++
			if fl == 0 {
				first = o
			}
			if o.err != nil || !tokensExactEq(o.toks, ts) {
				repDec.violate("C02", "roundtrip", fmt.Sprintf("Decode(Encode ts) != ts with reader %q (err %v, got %s)", readerFlavours[fl], o.err, descTokens(o.toks)), desc)
				break
			}
			// no read-ahead: after token i the reader has handed out exactly the bytes of tokens 0..i
			sum := 0
			for i, t := range ts {
				l, _ := runEncodedLen([]sb.Token{t})
				sum += l
				if o.perToken[i] != sum {
					repDec.violate("C02", "read-ahead", fmt.Sprintf("after token %d the reader %q had handed out %d bytes, tokens so far occupy %d", i, readerFlavours[fl], o.perToken[i], sum), desc)
					break
				}
			}
		}
		// caller-supplied scratch buffers (DecodeBuffer): the same tokens whatever the size of the scratch
		for si, scratch := range scratchBuffers() {
			if len(scratch) == 8 && si != 1 {
				scratch = make([]byte, []int{8, 16, 9, 32}[si]) // longer scratches too: only 8 bytes of it are a word
			}
			var toks []sb.Token
			e := guard(func() error {
				var src io.Reader = bytes.NewReader(o0.bytes)
				var br io.ByteReader
				if si%2 == 0 {
					src = plainReaderFlavour{&baseReader{data: o0.bytes, r: r}}
				} else {
					br = src.(io.ByteReader)
				}
				p := sb.DecodeBuffer(src, br, scratch, nil)
				var err error
				toks, err = collect(&p)
				return err
			})
			repDec.Evaluations++
			if e != nil || !tokensExactEq(toks, ts) {
				repDec.violate("C02", "scratch-buffer-dependent", fmt.Sprintf("DecodeBuffer with a scratch of %d bytes gives (%v) %s", len(scratch), e, truncate(descTokens(toks), 300)), desc)
				break
			}
		}
		if len(o0.bytes) < 40000 || thorough {
			wDec.add(decCaseTerm(false, sb.MaxDecodeStringLength, false, o0.bytes, first), "valid:"+desc, len(ts) > 0)
			oc := decodeAllFlavours(repDec, o0.bytes, true, false, r, "valid:"+desc)
			wDec.add(decCaseTerm(true, sb.MaxDecodeStringLength, false, o0.bytes, oc), "valid-cmp:"+desc, len(ts) > 0)
			if oc.err != nil {
				repDec.violate("C04", "cmp-rejects-valid", fmt.Sprintf("DecodeForCompare rejects a valid encoding: %v", oc.err), desc)
			}
		}

		// writer faults: every call index
		if len(ts) > 0 && len(ts) <= 6 && len(o0.bytes) < 1000 {
			for fl := range writerFlavours {
				for k := 1; k <= o0.calls+1; k++ {
					of := runEncode(ts, fl, k)
					repWf.Evaluations++
					fired := k <= o0.calls
					repWf.count(fmt.Sprintf("fired:%v", fired))
					wdesc := fmt.Sprintf("writer=%s k=%d tokens=%s", writerFlavours[fl], k, desc)
					if fired {
						if classOf(of.err) != "EFault" {
							repWf.violate("C15", "writer-fault-lost", fmt.Sprintf("writer failed at call %d but Copy returned %v", k, of.err), wdesc)
						}
						if !bytes.HasPrefix(o0.bytes, of.bytes) {
							repWf.violate("C15", "writer-fault-not-prefix", "bytes accepted before the fault are not a prefix of the fault-free output", wdesc)
						}
						if of.calls != k {
							repWf.violate("C15", "write-after-fault", fmt.Sprintf("writer was called %d times, fault was at call %d", of.calls, k), wdesc)
						}
					} else if of.err != nil {
						repWf.violate("C15", "spurious-error", fmt.Sprintf("no fault fired but Copy returned %v", of.err), wdesc)
					}
					wWf.add(fmt.Sprintf("WfCase %s %d %s %s", coqTokens(ts), k, coqRLE(of.bytes), classOf(of.err)), wdesc, fired)
				}
			}
		}
	}

	// ---- large payloads: Go-side oracles only (the theorems cover every length; the model is
	//      evaluated on lengths up to 16385 in the quick tier and 2^21 in the thorough tier) ----
	bigLens := []int{1<<14 - 1, 1 << 14, 65535, 65536, 1<<20 - 1, 1 << 20, 1<<20 + 12345, 1<<21 - 1, 1 << 21, 1<<21 + 1}
	if thorough {
		bigLens = append(bigLens, 1<<24+7, 1<<28-1, 1<<28)
	}
	for i, n := range bigLens {
		var t sb.Token
		if i%2 == 0 {
			t = sb.Token{Kind: strKinds[i%3], Value: string(payload(r, n))}
		} else {
			t = sb.Token{Kind: bytesKinds[i%2], Value: payload(r, n)}
		}
		ts := []sb.Token{{Kind: sb.KindInt, Value: 7}, t, {Kind: sb.KindNil}}
		desc := fmt.Sprintf("big payload: kind=%d len=%d", t.Kind, n)
		repEnc.count("big-len")
		o0 := runEncode(ts, 0, 0)
		o1 := runEncode(ts, 1, 0)
		ln, e := runEncodedLen(ts)
		repEnc.Evaluations += 3
		if o0.err != nil || o1.err != nil || !bytes.Equal(o0.bytes, o1.bytes) {
			repEnc.violate("C03", "writer-flavour-dependent", "io.Writer and io.ByteWriter received different bytes", desc)
			continue
		}
		if e != nil || ln != len(o0.bytes) {
			repEnc.violate("C02", "encoded-len", fmt.Sprintf("EncodedLen=%d (err %v) but %d bytes were written", ln, e, len(o0.bytes)), desc)
		}
		want := refEncodeLen(n)
		if len(o0.bytes) != 9+1+1+want {
			repEnc.violate("C03", "layout-length", fmt.Sprintf("%d bytes written, the layout prescribes %d", len(o0.bytes), 9+1+1+want), desc)
		}
		for _, fl := range []int{0, 1, 3, 4} {
			if n > 1<<22 && fl == 3 {
				continue
			}
			o := runDecode(o0.bytes, false, fl, false, r)
			repDec.Evaluations++
			if o.err != nil || !tokensExactEq(o.toks, ts) {
				repDec.violate("C02", "roundtrip", fmt.Sprintf("Decode(Encode ts) != ts with reader %q (err %v)", readerFlavours[fl], o.err), desc)
				break
			}
		}
	}

	// ---- large payloads cut short (Go-side oracles; every buffering threshold of an implementation
	//      lies somewhere between these lengths) ----
	for i, n := range []int{200, 4096, 32767, 32768, 32769, 40000, 65536, 100000, 1 << 20} {
		for _, k := range []sb.Kind{sb.KindString, sb.KindBytes, sb.KindRef, sb.KindTypeName} {
			var t sb.Token
			if k == sb.KindBytes || k == sb.KindRef {
				t = sb.Token{Kind: k, Value: payload(r, n)}
			} else {
				t = sb.Token{Kind: k, Value: string(payload(r, n))}
			}
			first := sb.Token{Kind: sb.KindInt, Value: i}
			enc := runEncode([]sb.Token{first, t}, 0, 0).bytes
			for _, cut := range []int{len(enc) - 1, len(enc) - n/2, len(enc) - n + 1, len(enc) - n} {
				in := enc[:cut]
				desc := fmt.Sprintf("big payload cut short: kind=%d len=%d cut=%d of %d", k, n, cut, len(enc))
				for _, cmp := range []bool{false, true} {
					for _, fl := range []int{0, 1, 4} {
						o := runDecode(in, cmp, fl, false, r)
						repDec.Evaluations++
						repDec.count("big-cut")
						if classOf(o.err) == "EPanic" {
							repDec.violate("C04", "decode-panic", fmt.Sprintf("decoder panicked: %v", o.err), desc)
						} else if o.err == nil {
							repDec.violate("C04", "truncation-clean-end", fmt.Sprintf("input cut inside a token decodes to a clean end (cmp=%v reader %q, %d tokens)", cmp, readerFlavours[fl], len(o.toks)), desc)
						} else if !cmp && !(len(o.toks) == 1 && tokensExactEq(o.toks, []sb.Token{first})) {
							repDec.violate("C04", "truncation-wrong-tokens", fmt.Sprintf("cut inside the 2nd token delivered %d tokens (reader %q)", len(o.toks), readerFlavours[fl]), desc)
						}
					}
				}
			}
		}
	}

	// ---- truncations, reader faults, mutations of valid encodings ----
	budget := 2500
	if thorough {
		budget = 60000
	}
	perm := r.Perm(len(valids))
	done := 0
	for _, idx := range perm {
		if done >= budget {
			break
		}
		v := valids[idx]
		if len(v.enc) == 0 || len(v.enc) > 70000 {
			continue
		}
		// token boundaries
		bounds := map[int]bool{0: true}
		sum := 0
		for _, t := range v.ts {
			l, _ := runEncodedLen([]sb.Token{t})
			sum += l
			bounds[sum] = true
		}
		cuts := cutPoints(r, len(v.enc))
		for _, cut := range cuts {
			in := v.enc[:cut]
			desc := fmt.Sprintf("cut=%d of %s", cut, descTokens(v.ts))
			for _, cmp := range []bool{false, true} {
				for _, fault := range []bool{false, true} {
					o := decodeAllFlavours(repDec, in, cmp, fault, r, desc)
					done++
					repDec.count("class:" + classOf(o.err))
					inside := !bounds[cut]
					// direct oracles (C04 / C15)
					if classOf(o.err) == "EPanic" {
						repDec.violate("C04", "decode-panic", fmt.Sprintf("decoder panicked: %v", o.err), desc)
					}
					if inside && o.err == nil {
						key := "truncation-clean-end"
						repDec.violate("C04", key, fmt.Sprintf("input cut inside a token decodes to a clean end (cmp=%v fault=%v, %d tokens)", cmp, fault, len(o.toks)), desc)
					}
					if fault && o.err == nil {
						repDec.violate("C15", "reader-fault-clean-end", fmt.Sprintf("reader failed after %d bytes but the stream ended cleanly (cmp=%v)", cut, cmp), desc)
					}
					if fault && o.err != nil && classOf(o.err) != "EFault" {
						repDec.violate("C15", "reader-fault-lost", fmt.Sprintf("reader failed after %d bytes with the injected error but the decoder returned %v (cmp=%v)", cut, o.err, cmp), desc)
					}
					if o.err != nil {
						if !o.hasOff || o.off < 0 || o.off > int64(len(in)) {
							repDec.violate("C04", "offset-out-of-range", fmt.Sprintf("error offset %d (present=%v) outside [0,%d] (cmp=%v fault=%v)", o.off, o.hasOff, len(in), cmp, fault), desc)
						}
						if !isDecodeError(o.err) {
							repDec.violate("C04", "not-a-decode-error", fmt.Sprintf("error is not a DecodeError: %v", o.err), desc)
						}
					}
					if !cmp {
						// delivered tokens = complete tokens within the cut
						want := 0
						s := 0
						for _, t := range v.ts {
							l, _ := runEncodedLen([]sb.Token{t})
							if s+l <= cut {
								want++
								s += l
							} else {
								break
							}
						}
						if !(len(o.toks) == want && tokensExactEq(o.toks, v.ts[:want])) {
							repDec.violate("C04", "truncation-wrong-tokens", fmt.Sprintf("cut at %d delivered %d tokens, the complete tokens before the cut are %d", cut, len(o.toks), want), desc)
						}
					}
					wDec.add(decCaseTerm(cmp, sb.MaxDecodeStringLength, fault, in, o), desc, true)
				}
			}
		}
	}

	// ---- hostile inputs under small limits (mutations, random, exhaustive short) ----
	limits := []uint64{0, 5, 127, 128, 70000}
	var hostile [][]byte
	hostile = append(hostile, nil)
	for b := 0; b < 256; b++ {
		hostile = append(hostile, []byte{byte(b)})
	}
	interesting := []byte{0, 1, 5, 6, 8, 9, 50, 55, 60, 127, 128, 129, 0xF6, 0xF7, 0xF8, 0xFE, 0xFF, 230, 240, 251}
	if thorough {
		for a := 0; a < 256; a++ {
			for b := 0; b < 256; b++ {
				hostile = append(hostile, []byte{byte(a), byte(b)})
			}
		}
	} else {
		for _, a := range []byte{40, 50, 55, 60, 70, 230, 240, 251, 0, 49, 51, 255} {
			for _, b := range interesting {
				hostile = append(hostile, []byte{a, b})
			}
		}
	}
	// length-prefix shapes: kind, prefix byte, varint bytes, payload
	for _, k := range []byte{50, 55, 230, 240, 251} {
		for _, pfx := range []byte{0, 1, 5, 6, 127, 128, 0xF6, 0xF7, 0xF8, 0xFC, 0xFD, 0xFE, 0xFF} {
			for _, tail := range [][]byte{nil, {0}, {1}, {5, 'a', 'b', 'c', 'd', 'e'}, {6, 'a', 'b', 'c', 'd', 'e', 'f'}, {0x80}, {0x80, 0x00}, {0x80, 0x01}, {0x85, 0x00, 'a', 'b', 'c', 'd', 'e'}, {0xff, 0xff, 0xff, 0xff, 0xff, 0xff, 0xff, 0xff}, {0xff, 0xff, 0xff, 0xff, 0xff, 0xff, 0xff, 0x7f}, {0x80, 0x80, 0x80, 0x80, 0x80, 0x80, 0x80, 0x80, 0x80}, {128, 1}, {0x81, 0x01, 'x'}} {
				in := append([]byte{k, pfx}, tail...)
				hostile = append(hostile, in)
			}
		}
	}
	nmut := 600
	if thorough {
		nmut = 20000
	}
	for i := 0; i < nmut && len(valids) > 0; i++ {
		v := valids[r.Intn(len(valids))]
		if len(v.enc) == 0 || len(v.enc) > 400 {
			continue
		}
		m := append([]byte{}, v.enc...)
		pos := r.Intn(len(m))
		switch r.Intn(3) {
		case 0:
			m[pos] = byte(r.Intn(256))
		case 1:
			m[pos] = interesting[r.Intn(len(interesting))]
		default:
			m[pos] ^= 1 << uint(r.Intn(8))
		}
		hostile = append(hostile, m)
	}
	for i := 0; i < nmut/2; i++ {
		n := 1 + r.Intn(24)
		m := make([]byte, n)
		for j := range m {
			if r.Intn(3) == 0 {
				m[j] = interesting[r.Intn(len(interesting))]
			} else if r.Intn(2) == 0 {
				m[j] = byte(valuelessKinds[r.Intn(len(valuelessKinds))])
			} else {
				m[j] = byte(r.Intn(256))
			}
		}
		hostile = append(hostile, m)
	}
	for i, in := range hostile {
		limit := limits[i%len(limits)]
		if len(in) <= 2 && !thorough {
			// short strings under every limit
			for _, lim := range limits {
				hostileCase(repDec, wDec, in, lim, r)
			}
			continue
		}
		hostileCase(repDec, wDec, in, limit, r)
	}
	sb.MaxDecodeStringLength = 4 * 1024 * 1024 * 1024

	// limit boundary: length == limit accepted, limit+1 rejected
	// limits at and above 2^63 ("no limit"): every payload is below them
	for _, lim := range []uint64{1<<63 - 1, 1 << 63, 1<<63 + 1, math.MaxUint64} {
		for _, k := range []sb.Kind{sb.KindString, sb.KindBytes, sb.KindTypeName, sb.KindLiteral, sb.KindRef} {
			for _, n := range []int{0, 1, 127, 128, 300} {
				var t sb.Token
				if k == sb.KindBytes || k == sb.KindRef {
					t = sb.Token{Kind: k, Value: payload(r, n)}
				} else {
					t = sb.Token{Kind: k, Value: string(payload(r, n))}
				}
				enc := runEncode([]sb.Token{t, tokI(1)}, 0, 0).bytes
				sb.MaxDecodeStringLength = lim
				desc := fmt.Sprintf("limit=%d len=%d kind=%d", lim, n, k)
				for _, cmp := range []bool{false, true} {
					o := decodeAllFlavours(repDec, enc, cmp, false, r, desc)
					if o.err != nil {
						repDec.violate("C04", "limit-boundary", fmt.Sprintf("a payload of %d bytes is rejected under the limit %d: %v", n, lim, o.err), desc)
					}
					wDec.add(decCaseTerm(cmp, lim, false, enc, o), desc, true)
				}
				sb.MaxDecodeStringLength = 4 * 1024 * 1024 * 1024
			}
		}
	}
	for _, lim := range []uint64{0, 5, 127, 128, 300} {
		for _, k := range []sb.Kind{sb.KindString, sb.KindBytes, sb.KindTypeName, sb.KindLiteral, sb.KindRef} {
			for _, d := range []int{0, 1} {
				n := int(lim) + d
				var t sb.Token
				if k == sb.KindBytes || k == sb.KindRef {
					t = sb.Token{Kind: k, Value: payload(r, n)}
				} else {
					t = sb.Token{Kind: k, Value: string(payload(r, n))}
				}
				enc := runEncode([]sb.Token{t}, 0, 0).bytes
				sb.MaxDecodeStringLength = lim
				desc := fmt.Sprintf("limit=%d len=%d kind=%d", lim, n, k)
				for _, cmp := range []bool{false, true} {
					o := decodeAllFlavours(repDec, enc, cmp, false, r, desc)
					if d == 0 && o.err != nil {
						repDec.violate("C04", "limit-boundary", fmt.Sprintf("length == limit rejected: %v", o.err), desc)
					}
					if d == 1 {
						c := classOf(o.err)
						if c != "EStrTooLong" && c != "EBytesTooLong" {
							repDec.violate("C04", "limit-boundary", fmt.Sprintf("length == limit+1 not rejected as too long: %v", o.err), desc)
						}
					}
					wDec.add(decCaseTerm(cmp, lim, false, enc, o), desc, true)
				}
				sb.MaxDecodeStringLength = 4 * 1024 * 1024 * 1024
			}
		}
	}

	apiHugeBlob(repDec)
	apiEncodeRetry(repEnc)
	apiPolledDecoder(repDec, r)
	apiFilterOverFaults(repDec)
	apiEncodeBesideUnmarshal(repEnc)
	apiSinkMarshalFaults(repWf)
	apiEndedStreamsAndSinkMarshal(repEnc, r)
	apiLongStreamReaders(repDec, r)
	wEnc.flush()
	wWf.flush()
	wDec.flush()
	repEnc.write(dir)
	repWf.write(dir)
	repDec.write(dir)
}

// length of prefix + payload for a payload of n bytes, from the layout in the property text
func refEncodeLen(n int) int {
	if n < 128 {
		return 1 + n
	}
	k := 0
	for x := uint64(n); ; x >>= 7 {
		k++
		if x < 128 {
			break
		}
	}
	return 1 + k + n
}

func hostileCase(rep *Report, w *CaseWriter, in []byte, limit uint64, r *rand.Rand) {
	sb.MaxDecodeStringLength = limit
	decodeStaysFailed(rep, in, false, fmt.Sprintf("limit=%d bytes=%x", limit, in))
	decodeStaysFailed(rep, in, true, fmt.Sprintf("limit=%d bytes=%x (compare decoder)", limit, in))
	desc := fmt.Sprintf("limit=%d bytes=%x", limit, in)
	op := decodeAllFlavours(rep, in, false, false, r, desc)
	oc := decodeAllFlavours(rep, in, true, false, r, desc)
	rep.count("hostile-class:" + classOf(op.err))
	for _, o := range []decObs{op, oc} {
		if classOf(o.err) == "EPanic" {
			rep.violate("C04", "decode-panic", fmt.Sprintf("decoder panicked: %v", o.err), desc)
		}
		if o.err != nil {
			if !o.hasOff || o.off < 0 || o.off > int64(len(in)) {
				rep.violate("C04", "offset-out-of-range", fmt.Sprintf("error offset %d (present=%v) outside [0,%d]", o.off, o.hasOff, len(in)), desc)
			}
			if !isDecodeError(o.err) {
				rep.violate("C04", "not-a-decode-error", fmt.Sprintf("error is not a DecodeError: %v", o.err), desc)
			}
		} else if o.handed != len(in) {
			rep.violate("C04", "clean-end-with-leftover", fmt.Sprintf("clean end after %d of %d bytes", o.handed, len(in)), desc)
		}
	}
	if (op.err == nil) != (oc.err == nil) {
		rep.violate("C04", "cmp-accepts-differently", fmt.Sprintf("plain decoder: %v, compare decoder: %v", op.err, oc.err), desc)
	}
	// re-encoding what was accepted must not be longer than the input and must decode to the same tokens
	if op.err == nil {
		re := runEncode(op.toks, 0, 0)
		if re.err != nil {
			rep.violate("C04", "accepted-not-reencodable", fmt.Sprintf("%v", re.err), desc)
		} else {
			back := runDecode(re.bytes, false, 0, false, r)
			if back.err != nil || !tokensExactEq(back.toks, op.toks) {
				rep.violate("C04", "accepted-not-stable", "tokens decoded from the input do not survive re-encoding", desc)
			}
		}
	}
	w.add(decCaseTerm(false, limit, false, in, op), desc, len(in) > 0)
	w.add(decCaseTerm(true, limit, false, in, oc), desc, len(in) > 0)
}

// run one decoder over every reader flavour; they must agree; returns the first
func decodeAllFlavours(rep *Report, in []byte, cmp, fault bool, r *rand.Rand, desc string) decObs {
	var first decObs
	for fl := range readerFlavours {
		o := runDecode(in, cmp, fl, fault, r)
		rep.Evaluations++
		if fl == 0 {
			first = o
		} else if !sameDecObs(first, o) {
			what := fmt.Sprintf("reader %q: %d tokens, %v @%d; reader %q: %d tokens, %v @%d (cmp=%v fault=%v)",
				readerFlavours[0], len(first.toks), first.err, first.off, readerFlavours[fl], len(o.toks), o.err, o.off, cmp, fault)
			rep.violate("C04", "reader-flavour-dependent", what, desc)
			if fault {
				// with an injected reader error this is also a C15 matter: tokens fabricated / lost around the fault
				rep.violate("C15", "reader-fault-flavour-dependent", what, desc)
			}
		}
	}
	return first
}

func isDecodeError(err error) bool {
	return errorsIs(err, sb.DecodeError)
}

func cutPoints(r *rand.Rand, n int) []int {
	if n <= 40 {
		cs := make([]int, 0, n)
		for i := 0; i < n; i++ {
			cs = append(cs, i)
		}
		return cs
	}
	set := map[int]bool{0: true, 1: true, 2: true, 3: true, 4: true, 9: true, 10: true, 11: true, n - 1: true, n - 2: true, n / 2: true}
	for _, c := range []int{8, 16, 24, 25, 26, 27, 56, 57, 58, 59, 120, 121, 122, 123, 130, 131} {
		if c < n {
			set[c] = true
		}
	}
	for i := 0; i < 4; i++ {
		set[r.Intn(n)] = true
	}
	var cs []int
	for c := range set {
		if c >= 0 && c < n {
			cs = append(cs, c)
		}
	}
	sortInts(cs)
	return cs
}

func sizeHint(t sb.Token) int {
	switch v := t.Value.(type) {
	case string:
		return len(v)
	case []byte:
		return len(v)
	}
	return 8
}

func minInt(a, b int) int {
	if a < b {
		return a
	}
	return b
}

// scratch buffers a caller may hand to EncodeBuffer: exactly 8 bytes, an 8-byte window in the middle
// of a larger buffer filled with 0xAA, a window with spare capacity, and one reused across calls
var sharedScratch = make([]byte, 8, 32)

func scratchBuffers() [][]byte {
	big := make([]byte, 64)
	for i := range big {
		big[i] = 0xAA
	}
	spare := make([]byte, 8, 16)
	for i := range spare[:16] {
		spare[:16][i] = 0x55
	}
	return [][]byte{make([]byte, 8), big[8:16], spare, sharedScratch}
}
