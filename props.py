# Per-property configuration of ./check (see DESIGN.md §5).
COMMON_TRUSTED = [
    'Coq 8.16.1 kernel incl. its vm_compute machine (used to evaluate the model on the correspondence cases); no native_compute',
    'hand-written Gallina model under coq/theories/{Base,Model}: tied to /repo only by the correspondence check of this run',
    'Go harness (generators, observable projection, Gallina printer, direct oracles), ./check, coqc printing of `bad = []`',
    'Go toolchain and standard library pieces modelled as contracts: io.ReadFull, io.CopyBuffer, io.LimitReader, encoding/binary, math.Float*bits, reflect, hash.Hash',
    'no extraction is used (no Extract Constant / Extract Inductive directives)',
]

BASE = ['Proofs/BytesP.v']
CODEC = BASE + ['Proofs/CodecP.v']

COMPARE = CODEC + ['Proofs/CompareP.v']

HASH = CODEC + ['Proofs/HashP.v', 'Proofs/TreeP.v']
STREAMS = ['Proofs/SinksP.v', 'Proofs/StreamsP.v']

TYPED_M = CODEC + ['Proofs/CompareP.v', 'Proofs/MarshalP.v']

TYPED_U = TYPED_M + ['Proofs/UnmarshalP.v']

PROPS = {
    'C02': dict(
        families=['codec'], reports=['codec_enc', 'codec_dec'], consts=True,
        proof_files=CODEC,
        theorems='c02_step_exact, c02_decode_encode, c02_encoded_len, c02_writes_flavour_independent, c02_consecutive_values',
        assumptions=['reader fragmentation is invisible because every read goes through io.ReadFull/ReadByte/io.CopyBuffer (Go stdlib contract); validated by running 5 reader flavours per case'],
    ),
    'C03': dict(
        families=['codec', 'golden'], reports=['codec_enc', 'golden'], consts=True,
        reference_reports={'codec_enc': 'the model `encode` is proved equal to the fixed layout relation (c03_layout, c03_layout_unique): bytes that differ from it do not conform to the layout'},
        proof_files=CODEC,
        theorems='c03_layout, c03_layout_unique, c03_stream_layout, c03_kinds_frozen (+ per-run consts_frozen)',
        assumptions=['golden vectors and README digests are checked against the implementation by the harness'],
    ),
    'C04': dict(
        families=['codec'], reports=['codec_dec'], consts=True,
        reference_reports={'codec_dec': 'the model decoder is proved to yield exactly the tokens of the longest prefix of complete encodings, to end cleanly only on the whole input and to fail with the stated error at the offset of the unreadable field (c04_*): a different token list, outcome, error kind or offset on an input is a failure of the property on that input'},
        proof_files=CODEC,
        theorems='c04_total, c04_exact, c04_prefix_free, c04_no_silent_truncation, c04_limit_boundary, c04_cmp_same_language',
        assumptions=['byte strings up to 70000 bytes in the correspondence; theorems unbounded'],
    ),
    'C06': dict(
        families=['compare'], reports=['compare'], consts=True,
        proof_files=COMPARE + ['Proofs/LexFirstDiffP.v'],
        theorems='c06_is_lex, c06_refl, c06_antisym, c06_trans, c06_trans_lt, c06_eq_iff, c06_same_is_identical, c06_prefix_first, c06_decomposition, c06_split_decides, c06_first_difference, c06_tails_irrelevant, c06_min_max (+ c06_nan_payload_irreflexive: the domain edge)',
        assumptions=['domain: well-formed tokens whose float payloads are not NaN (the canonical NaN is the NaN kind, which is in the domain)',
                     'IEEE-754 ordering of non-NaN floats is modelled as a sign-magnitude key on bit patterns (Base/Floats.v); validated against Go on boundary and random bit patterns by every run'],
    ),
    'C07': dict(
        families=['compare'], reports=['compare', 'compare_raw'], consts=True,
        proof_files=COMPARE,
        theorems='c07_routes_agree, c07_bytes_route, c07_segmented_route, c07_segments_like_unsplit, c07_segments_prefix',
        assumptions=['domain as C06; payload lengths < 2^56 (8 uvarint bytes, the decoder limit)'],
    ),
    'C09': dict(
        families=['hash'], reports=['hash'], consts=True,
        reference_reports={'hash': 'the model hash machine is proved equal to the specified Merkle function for every hash function (c09_*): a different digest on an input is a failure of the property on that input'},
        proof_files=HASH,
        theorems='c09_sink, c09_sink_first_value, c09_sink_last_event, c09_fill, c09_build_with_hash, c09_empty, c09_unclosed, c09_injective (for every hash function H)',
        assumptions=['digests are compared inside Coq for FNV-128 / FNV-128a (Base/Fnv.v); sha256, sha1, md5 and seeded maphash against an independent Go reference of the Merkle function',
                     'collision resistance is an assumption about H (c09_injective is stated for an injective fixed-length H)'],
    ),
    'C10': dict(
        families=['hash'], reports=['refs'], consts=True,
        proof_files=HASH,
        theorems='c10_subst_hash, c10_subst_stream_hash, c10_iterfunc_is_subst, c10_deref_restores, c10_declined_pass_through, c10_resolver_error',
        assumptions=['antichains are given by the stream indices of the selected nodes; exhaustive over node subsets for trees with <= 7 value nodes'],
    ),
    'C12': dict(
        families=['hash'], reports=['tree'], consts=True,
        proof_files=HASH,
        theorems='c12_children, c12_build_iter, c12_stray_end, c12_stray_end_first, c12_more_than_one, c12_fill_hashes, c12_with_hash_nodes, c12_find_complete, c12_find_sound, c12_find_result_hash, c12_not_found',
        assumptions=['lookup of an end marker\'s own hash returns the bare marker (second disjunct of c12_find_sound): outside "sub-values", recorded'],
    ),
    'C13': dict(
        families=['streams', 'pipeline'], reports=['proc', 'pipeline'],
        proof_files=STREAMS + ['Proofs/PipelineP.v', 'Proofs/AnyP.v', 'Proofs/AnyRegP.v', 'Proofs/PipelineAnyP.v'],
        theorems='c13_run_is_den, c13_tee, c13_iter_stream, c13_concat, c13_filter, c13_run_tee, c13_stage_identity, c13_pipeline, c13_pipeline_hash, c13_pipeline_injective_hash, c13_c11_premise_discharged, c13_pipeline_any, c13_pipeline_hash_any [no premise left on the schema-less domain], c13_pipeline_any_reg + c13_fuel_ok_depth3 (+ c13_fuel_constant_edge)',
        assumptions=['Tee side sinks in the adequacy theorem are plain recorders (tame); failing side sinks are covered by C15',
                     'with registered names nested in the input the pipeline theorem needs the fuel constant of the stage model to suffice (true for registries whose types nest at most 3 deep); the implementation has no fuel'],
    ),
    'C14': dict(
        families=['streams'], reports=['copy', 'proc'],
        proof_files=STREAMS,
        theorems='c14_copy_delivery, c14_copy_pulls, c14_copy_no_sinks, c14_filter_sink, c14_concat_sinks, c14_concat_sinks_nary, c14_alt_sink, c14_alt_empty_accepts, c14_collect_value, c14_collect_value_stray_end, c14_collect_value_unclosed, c14_tee_transparent',
        assumptions=['a sink that never returns nil makes Copy/Tee re-deliver the end-of-stream signal forever; such sinks are outside the quantifier (recording sinks return nil on EOS)'],
    ),
    'C15': dict(
        families=['codec', 'streams'], reports=['codec_wfault', 'codec_dec', 'copy', 'proc'],
        proof_files=CODEC + STREAMS,
        theorems='c15_writer_fault, c15_writer_fault_prefix, c15_reader_fault_never_done, c15_reader_fault_tokens, c15_reader_fault_offset, c15_source_fault_copy, c15_sink_fault_copy, c15_stream_fault_prefix, c15_clean_end_means_no_fault, c15_fail_*',
        assumptions=['an injected reader error is reported by a call of its own (a reader returning data together with a non-EOF error may lose the final token: io.ReadFull contract)'],
    ),
    'C08': dict(
        families=['typed'], reports=['marshal'], consts=True,
        reference_reports={'marshal': 'the model `marshal` (Model/Marshal.v) is the independent reference marshaller the property names; c08_* prove it satisfies every clause of the reference mapping'},
        proof_files=TYPED_M,
        theorems='c08_scalar_*, c08_nan*, c08_nil_*, c08_bytes, c08_byte_array, c08_struct, c08_tuple, c08_registered_prefix, c08_map_sorted, c08_map_order_independent, c08_indirection_*, c08_bad_key_rejected, c08_tokens_wf, c08_total (+ c08_tied_keys_edge: the domain edge)',
        assumptions=['cross-run determinism has no counterpart inside a Gallina function; for the Go code it is carried by the correspondence (every map rebuilt through another insertion/deletion history; Go randomises map iteration per map)',
                     'domain: map keys whose key streams are pairwise distinct (distinct keys with equal streams, e.g. +0/-0 or two pointers to equal values, marshal in iteration order: c08_tied_keys_edge)',
                     'slices.SortFunc is modelled as insertion sort (any sort returning a sorted permutation gives the same result on distinct keys: sorted_perm_eq)'],
    ),
    'C17': dict(
        families=['typed'], reports=['marshal', 'unmarshal', 'utaps'],
        reference_reports={'utaps': 'the unmarshal path model is proved to announce exactly the declarative path of every element of a value read back from its canonical stream (c17_unmarshal_roundtrip_paths), to report only paths that extend the context path (c17_unmarshal_paths_extend) and to compute the value the unmarshal model computes (c17_unmarshal_paths_erase): a different tap path, error path or value on an input is a failure of the property on that input'},
        proof_files=['Abstract/PathsAlias.v', 'Proofs/PathsP.v', 'Proofs/UnmarshalPathsP.v'],
        theorems='c17_append_spec, c17_siblings_isolated, c17_taps_are_true_paths (for every growth policy of append); Snapshots.c17_snapshot_stable, c17_view_stable_when_full, c17_runs_taps_true_paths, c17_runs_independent (+ c17_view_refuted, c17_hdrs_refuted: why errors must copy the path); MarshalTaps.c17_marshal_taps_are_paths [the executable tap model = the declarative path of every element], c17_root_tap_path, c17_taps_extend_root, c17_sibling_taps_disjoint, c17_taps_count (+ c17_marshal_taps_tied_keys_edge); UnmarshalPaths.c17_unmarshal_roundtrip_paths [reading a value back announces exactly the declarative paths of its elements], c17_unmarshal_paths_erase, c17_unmarshal_paths_shift, c17_unmarshal_paths_extend, c17_unmarshal_first_tap',
        assumptions=['the aliasing model (Abstract/PathsAlias.v) is tied to the code through the tap logs: the marshal tap model (Model/MarshalTaps.v) and the unmarshal path model (Model/UnmarshalPaths.v: value, error class, path carried by the error, TapUnmarshal log) are evaluated in Coq on every generated case and compared with what the implementation reported',
                     'c17_unmarshal_roundtrip_paths is stated on the universe without maps, interfaces, funcs and registered names; map keys / values, interface positions, tuple items, registered names, failing streams (the path an error carries) are decided by the utaps correspondence and by Go-side reference path computations (incl. literal conversion errors, errors kept across runs that share a base context, sb.Tuple / pre-filled targets)'],
    ),
    'C18': dict(
        families=['heap'], reports=['heap'],
        proof_files=['Proofs/HeapP.v'],
        theorems='c18_terminates, c18_terminates_any_threshold, c18_revisit_is_cyclic, c18_cyclic_only_on_revisit, c18_acyclic_ok',
        assumptions=['native stack depth is constant by construction of the continuation-passing marshaller; the model does not exhibit the Go stack',
                     'graphs are built from one node struct, []any, map[string]any and self-typed slices / maps'],
    ),
    'C19': dict(
        families=['conc', 'concplain'], reports=['conc', 'concplain'], race=True, plain_families=['concplain'], pool_pattern=True, model_cases=False,
        proof_files=['Abstract/PoolSchedules.v', 'Abstract/MemoSchedules.v'],
        theorems='pools: c19_pool_exclusive, c19_init, c19_results_schedule_independent; caches and registries: Caches.c19_memo_inv, c19_memo_schedule_independent, c19_memo_same_as_alone, c19_nested_memo_schedule_independent, c19_registry_entries_never_change, c19_registry_monotone, c19_registry_consistent_pairs, c19_registered_before_start_independent (+ c19_registry_window_edge, c19_registry_name_collision_edge) - all schedules, protocol models',
        level='proof',
        assumptions=['PARTIAL: the theorems are about interleaving models of ALL the package-level state pipelines share - the two scratch-buffer pools (Abstract/PoolSchedules.v) and the memo tables and registries (Abstract/MemoSchedules.v: sync.Map Load / Store / LoadOrStore as atomic steps, the deferred Store of type_name.go and deprecated_fields.go, the two LoadOrStores of Register); data races are a property of the Go memory model and of every memory access in the package, which no Gallina model exhibits: that half is sampled by stress runs under the race detector (G in 2..64, varied GOMAXPROCS, pools exhausted through the verif hooks), and the model\'s atomic-step assumption (Get .. defer Put, buffer not escaping) is checked syntactically on the source on every run',
                     'sync.Map, sync.Pool and sync/atomic are trusted'],
    ),
    'C20': dict(
        families=['json'], reports=['json'],
        reference_reports={'json': 'the model token map is proved to emit exactly the mirroring stream of the document (c20_mirror), the literal conversions are proved exact (c20_literal_*), and unmarshalling the mirroring stream is proved to compute the reference decoding of the document, which the jdec cases compare with the real encoding/json (c20_unmarshal_is_reference_decoding): a different stream, value or outcome on a document is a failure of the property on that document'},
        proof_files=['Proofs/JsonP.v', 'Proofs/JsonDecodeP.v', 'Proofs/JsonLawsP.v'],
        theorems='c20_mirror, c20_mirror_map, c20_several_documents, c20_truncated, c20_truncated_document, c20_mirror_wf, c20_literal_int_range, c20_literal_uint_range, c20_literal_not_int, c20_unmarshal_is_reference_decoding, c20_document_into_zero_target, c20_reference_decoding_total, c20_unknown_member_skipped, c20_object_member_order, c20_unknown_member_changes_nothing, c20_strict_unknown_member_rejected',
        assumptions=['encoding/json\'s tokenizer (Decoder.Token with UseNumber) is a contract: json_tokens',
                     'the reference decoding semantics jdec (Spec/JsonDecode.v, by recursion on the document) is tied to the real encoding/json by correspondence on every generated (document, target) pair of this run - not by proof; it is tied to sb.Unmarshal by theorem (unm (mirror j) = jdec j, success and failure) plus the unmarshal correspondence',
                     'strconv.ParseFloat is a parameter (table of the literals of each case)',
                     'targets: bool, integer and float widths, string, slices, structs with exact-name fields, pointers, defined types over these (maps, []byte, arrays and `any` numeric positions are outside the property and outside jtarget)'],
    ),
    'C01': dict(
        families=['typed'], reports=['marshal', 'unmarshal'], consts=True,
        proof_files=TYPED_U + ['Proofs/AnyP.v', 'Proofs/RoundTripFullP.v', 'Proofs/TuplesP.v'],
        theorems='c01_typed_tuple_roundtrip, c01_typed_tuple_is_func, c01_tuple_is_any [sb.Tuple / sb.TypedTuple targets on top of the unmarshal model]; c01_marshal_total, c01_roundtrip_full_partial(_fuel, _stable) [maps, interface positions, tuple funcs], c01_roundtrip_tokens_partial / _fuel / c01_roundtrip_exact [functional normal form on simple_ty], c01_equiv_normal, c01_registered_*_roundtrip, c01_bytes_key_in_any (+ c01_roundtrip_full_refuted, c01_refuted_outside_domain: the six edges of the domain); the byte route composes with c02_decode_encode',
        assumptions=['PARTIAL as a theorem: not covered by c01_roundtrip_full_partial are interface values nested below the top of a map key, registered types nested inside []any / map[string]any held in an interface, tuple funcs with more than 50 results, embedded fields; these are decided by the correspondence (marshal and unmarshal models evaluated in Coq on every generated case) and the Go round-trip oracle, through tokens and through the byte codec with every writer/reader flavour',
                     'known findings: a non-nil pointer to a nil pointer / nil interface; an array that is not a byte array in an interface-typed map key',
                     'a nil tuple func with results is outside the quantifier (nil positions listed there: pointer/slice/map/interface)',
                     'the reader registry knows every registered dynamic type of the value (dom); time.Time is modelled as an opaque value bridged through its MarshalBinary image'],
    ),
    'C05': dict(
        families=['typed'], reports=['unmarshal'], consts=True,
        reference_reports={'unmarshal': 'the model `unm` (Model/Unmarshal.v) is the reference interpretation the property names (c05_* state its totality, exact consumption, mismatch reporting)'},
        proof_files=TYPED_U + ['Spec/ConformSpec.v', 'Proofs/ConformP.v', 'Proofs/TuplesP.v'],
        theorems='c05_tuple_head_rejects, c05_tuple_head_empty, c05_typed_tuple_too_few, c05_typed_tuple_too_many, c05_typed_tuple_total, c05_tuple_total [sb.Tuple / sb.TypedTuple targets]; c05_ok_iff_conforms (the declarative relation Conforms of Spec/ConformSpec.v <-> the executable model), c05_conforms_sound / _complete / _iff_bound / _functional / _fuel_independent, c05_err_iff_not_conforms, c05_scalar_conforms_iff, c05_mismatch_reported_general / _structural, c05_total, c05_total_exists, c05_fuel_monotone, c05_consumes_prefix, c05_nil_leaves_untouched, c05_end_token_rejected, c05_empty_is_eof, c05_scalar_exact_kind, c05_mismatch_reported, c05_unknown_field_skipped, c05_skip_any_value',
        assumptions=['the declarative relation Conforms is proved equivalent to the executable model `unm`; acceptance, resulting value and error class of the IMPLEMENTATION are compared with that model on every generated (stream, target) pair (plain and through TapUnmarshal with an observing tap); that the implementation never panics and always returns is an observable of that comparison (watchdog), not a theorem',
                     'struct types with embedded (anonymous) fields are not in the unmarshal model (field promotion) and are excluded from the generated targets; Go\'s promotion rules (shallowest declaration, ambiguity at equal depth, nil embedded pointers at any level) are directed Go-side oracles'],
    ),
    'C16': dict(
        families=['typed'], reports=['marshal', 'unmarshal'],
        proof_files=TYPED_U + ['Proofs/SkipEmptyP.v', 'Proofs/RecycledP.v'],
        theorems='c16_slice_target_appends, c16_slice_target_recycled, c16_bytes_token_replaces [a recycled target: what a slice held influences the result only as a prefix]; c16_by_name, c16_by_name_fuel, c16_strict_unknown_rejected, c16_strict_deprecated_skipped, c16_unknown_skipped, c16_skip_is_structural, c16_skip_empty_fields_exact, c16_kept_fields_spec, c16_noskip_all_fields, c16_skip_empty_roundtrip(_fuel), c16_normal_se_equiv (+ c16_merge_edge, c16_skip_empty_merge_edge: the zero-target edge)',
        assumptions=['by-name theorem: common fields from the round-trip universe (simple_ty) with identical types and zero initial content; other field types are decided by the correspondence',
                     'skip-empty: "exactly the empty fields are omitted" is an equation for every struct type; the round trip of the shortened stream is proved on the round-trip universe (simple_ty), maps / interfaces / funcs as field types by the correspondence (marshal model with skip_empty) and Go oracles; is_zero mirrors reflect.Value.IsZero (validated by the correspondence)'],
    ),
    'C11': dict(
        families=['typed'], reports=['unmarshal'], consts=True,
        proof_files=TYPED_U + ['Proofs/AnyP.v', 'Proofs/RoundTripFullP.v', 'Proofs/AnyRegP.v'],
        theorems='c11_any_roundtrip, c11_any_decodes, c11_any_remarshals, c11_registered_resurrects(_stable), c11_reg_roundtrip(_stable) [registered names nested at any depth], c11_resurrected_named, c11_domain_extends, c11_rejects_nil_field, c11_rejects_composite_key, c11_rejects_nil_key, c11_rejects_nan_key, c11_rejects_big_tuple, c11_rejects_literal/min/max/ref, c11_unregistered_name_dropped, c11_unregistered_name_lost (+ c11_unsorted_map_edge)',
        assumptions=['registered names: the typed value behind a name lies in the typed round-trip domain (ty_ok / dom of C01); registered values as MAP KEYS of an untyped map, and struct-valued keys, are outside the proved domain and decided by the correspondence on streams marshalled from registered catalogue types',
                     'object field names: ASCII identifiers (go/token.IsIdentifier / IsExported on non-ASCII letters is not modelled; the generators use ASCII names)'],
    ),
}
