# Per-property configuration of ./check (see DESIGN.md §5).
COMMON_TRUSTED = [
    'Coq 8.16.1 kernel incl. its vm_compute machine (used to evaluate the model on the correspondence cases); no native_compute',
    'hand-written Gallina model under coq/theories/{Base,Model}: tied to /repo only by the correspondence check of this run',
    'Go harness (generators, observable projection, Gallina printer, direct oracles), ./check, coqc printing of `bad = []`',
    'Go toolchain and standard library pieces modelled as contracts: io.ReadFull, io.CopyBuffer, io.LimitReader, encoding/binary, math.Float*bits, reflect, hash.Hash',
    'no extraction is used (no Extract Constant / Extract Inductive directives)',
]

BASE = ['Proofs/BytesP.v']
CODEC = BASE + ['Proofs/CodecP.v']

COMPARE = CODEC + ['Proofs/CompareP.v']

PROPS = {
    'C02': dict(
        families=['codec'], reports=['codec_enc', 'codec_dec'], consts=True,
        proof_files=CODEC,
        theorems='c02_step_exact, c02_decode_encode, c02_encoded_len, c02_writes_flavour_independent, c02_consecutive_values',
        assumptions=['reader fragmentation is invisible because every read goes through io.ReadFull/ReadByte/io.CopyBuffer (Go stdlib contract); validated by running 5 reader flavours per case'],
    ),
    'C03': dict(
        families=['codec'], reports=['codec_enc'], consts=True,
        proof_files=CODEC,
        theorems='c03_layout, c03_layout_unique, c03_stream_layout, c03_kinds_frozen (+ per-run consts_frozen)',
        assumptions=['golden vectors and README digests are checked against the implementation by the harness'],
    ),
    'C04': dict(
        families=['codec'], reports=['codec_dec'], consts=True,
        proof_files=CODEC,
        theorems='c04_total, c04_exact, c04_prefix_free, c04_no_silent_truncation, c04_limit_boundary, c04_cmp_same_language',
        assumptions=['byte strings up to 70000 bytes in the correspondence; theorems unbounded'],
    ),
    'C06': dict(
        families=['compare'], reports=['compare'], consts=True,
        proof_files=COMPARE,
        theorems='c06_is_lex, c06_refl, c06_antisym, c06_trans, c06_trans_lt, c06_eq_iff, c06_same_is_identical, c06_prefix_first, c06_min_max (+ c06_nan_payload_irreflexive: the domain edge)',
        assumptions=['domain: well-formed tokens whose float payloads are not NaN (the canonical NaN is the NaN kind, which is in the domain)',
                     'IEEE-754 ordering of non-NaN floats is modelled as a sign-magnitude key on bit patterns (Base/Floats.v); validated against Go on boundary and random bit patterns by every run'],
    ),
    'C07': dict(
        families=['compare'], reports=['compare', 'compare_raw'], consts=True,
        proof_files=COMPARE,
        theorems='c07_routes_agree, c07_bytes_route, c07_segmented_route, c07_segments_like_unsplit, c07_segments_prefix',
        assumptions=['domain as C06; payload lengths < 2^56 (8 uvarint bytes, the decoder limit)'],
    ),
}
