#!/bin/sh
# Offline setup: full .vo build of the Coq development, build of the Go harness against /repo.
set -e
cd "$(dirname "$0")"
export GOFLAGS=-mod=mod GOPROXY=off GOSUMDB=off GOTOOLCHAIN=local
mkdir -p work evidence replays
(cd coq && coq_makefile -f _CoqProject -o Makefile >/dev/null && timeout 3000 make -j16)
cp /repo/go.sum harness/go.sum
(cd harness && go build -tags verif -o sbverif .)
echo setup ok
